#!/bin/bash
# dev aid: validate MANIFEST.json and evidence/*.json against the schemas (tooling venv has jsonschema)
cd "$(dirname "$0")/.."
python3-vt - <<'PY'
import json, glob, jsonschema, sys
m = json.load(open('MANIFEST.json')); jsonschema.validate(m, json.load(open('/root/.vp/MANIFEST.schema.json')))
es = json.load(open('/root/.vp/EVIDENCE.schema.json'))
bad = 0
for p in sorted(glob.glob('evidence/*.json')):
    try:
        jsonschema.validate(json.load(open(p)), es)
    except Exception as e:
        bad += 1; print('INVALID', p, str(e)[:300])
print('manifest ok; evidence files:', len(glob.glob('evidence/*.json')), 'invalid:', bad)
sys.exit(1 if bad else 0)
PY
