#!/usr/bin/env python3
"""dev aid: run checks against a mutated scratch copy of /repo/src (never touches /repo).

  tools/mut.py [--tests] FILE OLD NEW [--and FILE OLD NEW]... -- C03 C16 ...
  tools/mut.py --patch P.diff -- C03

FILE is relative to src/dateutil; OLD must occur exactly once (literal).
--tests also runs the repository test-suite against the mutant (should still pass).
"""
import os, shutil, subprocess, sys, tempfile

def main():
    a = sys.argv[1:]
    run_tests = False
    if a and a[0] == '--tests':
        run_tests = True; a = a[1:]
    sep = a.index('--')
    spec, checks = a[:sep], a[sep + 1:]
    tmp = tempfile.mkdtemp(prefix='mut_', dir='/tmp')
    try:
        shutil.copytree('/repo/src', os.path.join(tmp, 'src'), ignore=shutil.ignore_patterns('__pycache__', '*.egg-info'))
        if spec[0] == '--patch':
            subprocess.check_call(['patch', '-p1', '-s', '-d', tmp, '-i', os.path.abspath(spec[1])])
        else:
            groups = []
            cur = []
            for x in spec:
                if x == '--and':
                    groups.append(cur); cur = []
                else:
                    cur.append(x)
            groups.append(cur)
            for f, old, new in groups:
                p = os.path.join(tmp, 'src', 'dateutil', f)
                s = open(p).read()
                assert s.count(old) == 1, "%r occurs %d times in %s" % (old, s.count(old), f)
                open(p, 'w').write(s.replace(old, new))
        env = dict(os.environ, DATEUTIL_SRC=os.path.join(tmp, 'src'))
        rc_all = {}
        if run_tests:
            shutil.copytree('/repo/tests', os.path.join(tmp, 'tests'), ignore=shutil.ignore_patterns('__pycache__'))
            for f in ('setup.cfg', 'pyproject.toml', 'tox.ini'):
                if os.path.exists('/repo/' + f): shutil.copy('/repo/' + f, tmp)
            shutil.copytree('/repo/docs', os.path.join(tmp, 'docs'), ignore=shutil.ignore_patterns('__pycache__'))
            r = subprocess.run(['/venv/bin/python', '-m', 'pytest', '-q', '-x', '-p', 'no:cacheprovider', '--timeout=900',
                                '-o', 'addopts=', 'tests', '--deselect', 'tests/test_imports.py',
                                '-W', 'ignore'], cwd=tmp,
                               env=dict(os.environ, PYTHONPATH=os.path.join(tmp, 'src')), capture_output=True, text=True)
            tail = r.stdout.strip().splitlines()[-1:] if r.stdout.strip() else []
            print('TESTS:', tail)
        for c in checks:
            tier = 'quick'
            if ':' in c:
                c, tier = c.split(':')
            r = subprocess.run(['/verif/check', c, '--tier', tier], env=env, capture_output=True, text=True)
            lines = [l for l in r.stdout.splitlines() if l.startswith(('VIOLATION', 'KNOWN', 'HARNESS', c))]
            print('== %s exit=%d' % (c, r.returncode))
            for l in lines[:12]:
                print('   ', l[:300])
            if r.returncode not in (0, 1):
                print(r.stdout[-1500:], r.stderr[-1500:])
            rc_all[c] = r.returncode
    finally:
        shutil.rmtree(tmp, ignore_errors=True)
        # evidence/replays written by a mutant run are not evidence: restore
        subprocess.run(['git', '-C', '/verif', 'checkout', '--', 'evidence'], capture_output=True)

if __name__ == '__main__':
    main()
