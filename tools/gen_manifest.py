#!/usr/bin/env python3
"""Regenerates MANIFEST.json from the table below (keeps it valid at all times)."""
import json, os, sys
ROOT = os.path.dirname(os.path.dirname(os.path.abspath(__file__)))
sys.path.insert(0, ROOT)
from tools.manifest_table import CHECKS, NOT_APPLICABLE, HOOK_COMMITS

BASE_OFF = ("cd /repo && env -u DATEUTIL_VERIF /venv/bin/python -m pytest -ra -q -p no:cacheprovider "
            "--timeout=900 --continue-on-collection-errors")

def main():
    checks = []
    for c in CHECKS:
        checks.append({
            "property_id": c["id"],
            "quick_cmd": "./check %s --tier quick" % c["id"],
            "thorough_cmd": "./check %s --tier thorough" % c["id"],
            "evidence_file": "/verif/evidence/%s.json" % c["id"],
            "replay_cmd_template": "./check %s --replay {path}" % c["id"],
            "engine": c["engine"],
            "level_claimed": {"category": "model_checking", "text": c["text"],
                              "design_ref": "DESIGN.md §3 %s" % c["id"]},
            "level_note": c["note"],
            "technique": c["technique"],
        })
    doc = {
        "version": 1,
        "setup_cmd": "cd /verif && ./setup.sh",
        "hooks": {
            "guard": "DATEUTIL_VERIF",
            "enable": "no source hooks are needed: checks import /repo/src directly (PYTHONPATH) and bind through "
                      "harness-side seams on module globals; DATEUTIL_VERIF=1 is exported by ./check but read by nothing in /repo",
            "baseline_off_cmd": BASE_OFF,
            "source_commits": HOOK_COMMITS,
            "add_only": True,
        },
        "engines": [
            {"name": "E1-shape", "path": "/verif/mc/shape.py",
             "serves_properties": [c["id"] for c in CHECKS if "E1" in c["engine"]],
             "kind_free_text": "deviation-bounded exhaustive enumeration of input shapes against executable reference models"},
            {"name": "E2-history", "path": "/verif/mc/history.py",
             "serves_properties": [c["id"] for c in CHECKS if "E2" in c["engine"]],
             "kind_free_text": "explicit-state BFS over operation histories on real objects with canonical-state deduplication"},
            {"name": "E3-schedule", "path": "/verif/mc/schedule.py",
             "serves_properties": [c["id"] for c in CHECKS if "E3" in c["engine"]],
             "kind_free_text": "stateless preemption-bounded exploration of real threads under a controlled scheduler (line granularity)"},
        ],
        "checks": checks,
        "not_applicable": NOT_APPLICABLE,
        "notes": "All checks run the implementation in /repo/src as it is on disk. Known defects that were not repaired are in "
                 "/verif/known_findings.json; repaired ones are listed there as fixed with the commit.",
    }
    with open(os.path.join(ROOT, "MANIFEST.json"), "w") as f:
        json.dump(doc, f, indent=1)
        f.write("\n")

if __name__ == "__main__":
    main()
