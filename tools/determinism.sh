#!/bin/bash
# dev aid: every quick check twice per seed from fresh processes; evidence must be identical modulo wall_s; exit codes 0
cd "$(dirname "$0")/.."
out=/tmp/determinism; rm -rf $out; mkdir -p $out
fail=0
for seed in ${SEEDS:-0 1 7}; do
  for run in a b; do
    for id in $(python3 -c "import json;print(' '.join(c['property_id'] for c in json.load(open('MANIFEST.json'))['checks']))"); do
      VERIF_SEED=$seed timeout 900 ./check $id --tier quick > $out/$id.$seed.$run.log 2>&1; rc=$?
      [ $rc -ne 0 ] && { echo "NONZERO $id seed=$seed rc=$rc"; fail=1; }
      python3 - $id $seed $run <<'PY'
import json,sys
id_,seed,run=sys.argv[1:]
e=json.load(open('evidence/%s.json'%id_))
e.pop('wall_s',None)
for p in e['coverage'].get('parts',[]): p.pop('wall_s',None)
json.dump(e,open('/tmp/determinism/%s.%s.%s.json'%(id_,seed,run),'w'),sort_keys=True,indent=1)
PY
    done
  done
  for id in $(python3 -c "import json;print(' '.join(c['property_id'] for c in json.load(open('MANIFEST.json'))['checks']))"); do
    cmp -s $out/$id.$seed.a.json $out/$id.$seed.b.json || { echo "EVIDENCE DIFFERS $id seed=$seed"; diff $out/$id.$seed.a.json $out/$id.$seed.b.json | head -8; fail=1; }
  done
done
echo "determinism done fail=$fail"
