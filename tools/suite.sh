#!/bin/bash
# dev aid: run the repository's pinned suite (guard off) and compare with BASELINE.json's stable_pass list
out=$(mktemp /tmp/junit.XXXX.xml)
wt=${1:-/repo}
(cd $wt && env -u DATEUTIL_VERIF PYTHONPATH=$wt/src /venv/bin/python -m pytest -ra -q -p no:cacheprovider --timeout=900 --continue-on-collection-errors --junitxml=$out >/dev/null 2>&1)
/venv/bin/python - $out <<'PY'
import sys, json, xml.etree.ElementTree as ET
base = set(json.load(open('/root/.vp/BASELINE.json'))['stable_pass'])
t = ET.parse(sys.argv[1])
passed = set()
for tc in t.iter('testcase'):
    if not any(c.tag in ('failure', 'error', 'skipped') for c in tc):
        passed.add('%s::%s' % (tc.get('classname'), tc.get('name')))
missing = sorted(base - passed)
print('baseline', len(base), 'passed now', len(passed), 'baseline tests not passing:', len(missing))
for m in missing[:15]: print('  ', m)
PY
rm -f $out
