#!/usr/bin/env python3
"""Confirm a seeded change and run checks against it (all in a scratch copy; /repo is never touched).

  tools/seedcheck.py <seed dir with patch.diff + demo.py> <name> <PROP> [check ids...]

Steps: demo on clean copy must exit 0; apply patch; suite must still match the baseline; demo must exit 1;
run the named checks (default: the property's own) with DATEUTIL_SRC pointing at the mutated copy.
On success the seed is stored under /verif/seeded/<name>/ with meta.json.
"""
import json, os, shutil, subprocess, sys, tempfile, time

def sh(cmd, **kw):
    return subprocess.run(cmd, capture_output=True, text=True, **kw)

def main():
    seed, name, prop = sys.argv[1:4]
    checks = sys.argv[4:] or [prop]
    tmp = tempfile.mkdtemp(prefix='seed_', dir='/tmp')
    out = {'property': prop, 'name': name}
    try:
        for d in ('src', 'tests', 'docs'):
            shutil.copytree('/repo/' + d, os.path.join(tmp, d), ignore=shutil.ignore_patterns('__pycache__', '*.egg-info'))
        for f in ('setup.cfg', 'pyproject.toml', 'tox.ini', 'conftest.py', 'setup.py'):
            if os.path.exists('/repo/' + f):
                shutil.copy('/repo/' + f, tmp)
        env = dict(os.environ, PYTHONPATH=os.path.join(tmp, 'src'))
        demo = os.path.join(seed, 'demo.py')
        r0 = sh(['/venv/bin/python', demo], env=env, timeout=600)
        out['demo_clean_exit'] = r0.returncode
        p = sh(['patch', '-p1', '-d', tmp, '-i', os.path.abspath(os.path.join(seed, 'patch.diff'))])
        if p.returncode:
            print('PATCH FAILED', p.stdout, p.stderr); return 2
        r1 = sh(['/venv/bin/python', demo], env=env, timeout=600)
        out['demo_mutant_exit'] = r1.returncode
        out['demo_mutant_output'] = (r1.stdout + r1.stderr)[-600:]
        s = sh(['/verif/tools/suite.sh', tmp], timeout=1800)
        out['suite'] = s.stdout.strip().splitlines()[0] if s.stdout.strip() else s.stderr[-200:]
        out['suite_ok'] = s.returncode == 0
        res = {}
        for c in checks:
            tier = 'quick'
            if ':' in c:
                c, tier = c.split(':')
            t0 = time.time()
            r = sh(['/verif/check', c, '--tier', tier], env=dict(os.environ, DATEUTIL_SRC=os.path.join(tmp, 'src')), timeout=7200)
            lines = [l for l in r.stdout.splitlines() if l.startswith(('VIOLATION', 'HARNESS'))]
            res['%s:%s' % (c, tier)] = {'exit': r.returncode, 'violations': len(lines), 'first': (lines[:1] or [''])[0][:200],
                                        'wall_s': round(time.time() - t0, 1)}
            first_detail = [l for l in r.stdout.splitlines() if l.startswith('  detail=')][:1]
            if first_detail:
                res['%s:%s' % (c, tier)]['detail'] = first_detail[0][:400]
        out['checks'] = res
        ok = out['demo_clean_exit'] == 0 and out['demo_mutant_exit'] != 0 and out['suite_ok']
        out['confirmed'] = ok
        print(json.dumps(out, indent=1))
        if ok:
            dst = os.path.join('/verif/seeded', name)
            os.makedirs(dst, exist_ok=True)
            if os.path.abspath(seed) != os.path.abspath(dst):
                shutil.copy(os.path.join(seed, 'patch.diff'), dst)
                shutil.copy(demo, dst)
                if os.path.exists(os.path.join(seed, 'README.md')):
                    shutil.copy(os.path.join(seed, 'README.md'), dst)
            meta = {'property': prop, 'breaks': open(os.path.join(seed, 'README.md')).read()[:1500] if os.path.exists(os.path.join(seed, 'README.md')) else '',
                    'confirmed': {'demo_exit_on_clean_tree': out['demo_clean_exit'], 'demo_exit_with_change': out['demo_mutant_exit'],
                                  'repository_suite_with_change': out['suite']},
                    'ran': 'tools/seedcheck.py (scratch copy of /repo/src + patch; suite via pytest against the copy; checks with DATEUTIL_SRC=<copy>)',
                    'checks': res, 'detected_by': sorted(k for k, v in res.items() if v['exit'] == 1),
                    'source': 'independent sub-agent given only the property text and a scratch worktree'}
            mp = os.path.join(dst, 'meta.json')
            if not meta['breaks'] and os.path.exists(mp):
                try:
                    meta['breaks'] = json.load(open(mp)).get('breaks', '')
                except Exception:
                    pass
            if os.path.exists(mp) and os.environ.get('SEED_MERGE', '1') == '1':
                try:
                    prev = json.load(open(mp))
                    merged = dict(prev.get('checks', {}))
                    merged.update(res)
                    meta['checks'] = merged
                    meta['detected_by'] = sorted(k for k, v in merged.items() if v['exit'] == 1)
                except Exception:
                    pass
            json.dump(meta, open(mp, 'w'), indent=1)
    finally:
        shutil.rmtree(tmp, ignore_errors=True)
        subprocess.run(['git', '-C', '/verif', 'checkout', '--', 'evidence'], capture_output=True)
    return 0

if __name__ == '__main__':
    sys.exit(main())
