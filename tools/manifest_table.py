HOOK_COMMITS = []
ALL = ["C%02d" % i for i in range(1, 21)]
CHECKS = [
 {"id": "C19", "engine": "E1-shape (exhaustive)",
  "technique": "exhaustive enumeration of every (year, method) in the documented ranges against an independent reference",
  "text": "Complete enumeration of the finite input space (years 1583..4099 x methods 2,3; 326..9999 x method 1; invalid methods) "
          "compared with independent Meeus/Jones/Butcher, Meeus-Julian and day-number conversion; the space is finite so the check decides the property.",
  "note": "Trusts CPython date arithmetic and the published algorithms in refs/easter_ref.py (self-checked each run)."},
]
CHECKS += [
 {"id": "C03", "engine": "E1-shape",
  "technique": "deviation-bounded exhaustive enumeration of relativedelta field shapes x boundary operands against an ordinal-arithmetic reference model",
  "text": "Every relativedelta with at most k non-default constructor fields (k=3 quick, 4 thorough) from boundary-laden menus is added to and "
          "subtracted from every operand of a boundary set (date, naive, aware; leap days, month ends, years 1 and 9999); each result is compared with "
          "a reference that applies the documented replace/shift/clip/duration/weekday order by integer arithmetic. Complete within the stated menus and bound.",
  "note": "Trusts CPython datetime/calendar and refs/reldelta_ref.py; values outside the menus are not covered."},
 {"id": "C09", "engine": "E1-shape (all pairs)",
  "technique": "exhaustive enumeration of all ordered pairs of a boundary set and of a two-year day window; inverse law + brute-force maximal month shift",
  "text": "All ordered pairs of an 804-element boundary set (month ends, leap days, three adjacent years, three times of day; thorough: 2780 elements) and all "
          "ordered day pairs of 2003-07-01..2005-06-30, plus mixed date/datetime, aware and calendar-edge pairs; oracle is the inverse law dt2+rd==dt1, "
          "normalisation bounds, only-relative-fields, and the month part compared with a brute-force search.",
  "note": "Trusts CPython datetime; pairs outside the sets are not covered."},
 {"id": "C16", "engine": "E1-shape (shapes + all pairs)",
  "technique": "deviation-bounded exhaustive enumeration of relativedelta values; unary/scalar laws on each, binary laws and eq/hash contract on all ordered pairs",
  "text": "All deltas with <= k fields (k=2 quick, 3 thorough) including carries in both signs, dyadic floats and every weekday spelling are checked for "
          "normalisation, total preservation, rebuild-equality, negation/abs/scalar laws; ALL ordered pairs of the k<=2 set are checked for symmetric equality, "
          "eq<=>same normalised fields, hash consistency, equal sums and +/- totals.",
  "note": "Field-wise integer model in the check itself; floats restricted to dyadic values."},
]
CHECKS += [
 {"id": "C01", "engine": "E1-shape",
  "technique": "deviation-bounded exhaustive enumeration of recurrence rules (<= k non-default parts x 7 frequencies x boundary starts) against an independent filter-semantics model",
  "text": "Every rule with at most k non-default parts (k=2 quick, 3 thorough; parts = interval, wkst, each BY-part with positive and negative members, "
          "COUNT/UNTIL, start kind) for all 7 frequencies and boundary starts (leap day, 53-week year end, century, real MAXYEAR) is iterated on the real code "
          "and its first 40/120 occurrences compared, as a list, with a brute-force model that tests each calendar day/instant against the RFC predicates. "
          "Complete within the menus and bound; thorough covers 1.6M rules.",
  "note": "Trusts refs/rrule_ref.py (week numbers cross-checked against date.isocalendar each run), CPython datetime/calendar, tz.tzutc/gettz for aware starts. "
          "Horizon and period-budget seams bound never-matching rules; capped cases are counted, prefix-checked and never judged."},
 {"id": "C13", "engine": "E1-shape",
  "technique": "exhaustive enumeration of rule shapes x deviation-bounded RFC spelling features; round-trip and keyword-construction oracles",
  "text": "str()/rrulestr() round trip over all C01 rule shapes with naive starts (k<=2) incl. years < 1000 and a non-Monday calendar.firstweekday configuration; "
          "every rule shape x every combination of <= 2 (thorough 3) spelling deviations (part order, case, BYDAY/BYWEEKDAY, +1MO/1MO/MO(+1), DTSTART inline/kwarg, TZID via "
          "gettz/mapping/callable, Z, VALUE parameter, folding incl. inside parameters, RRULE: prefix, forceset/compatible/cache/ignoretz/unfold) compared with the keyword-built rule; "
          "multi-line RRULE/RDATE/EXRULE/EXDATE texts compared with set algebra; malformed menu must raise ValueError.",
  "note": "Keyword-built rules are the oracle (their correctness is C01); dateutil.parser reads DTSTART/UNTIL values."},
]
CHECKS += [
 {"id": "C10", "engine": "E2-history",
  "technique": "explicit-state BFS over member-addition / partial-iteration / query histories on real rruleset objects, canonical-state deduplication, set-algebra reference",
  "text": "Breadth-first search over all histories (depth 4 quick, 5-6 thorough) that interleave adding rules and dates in inclusion/exclusion roles "
          "(shared rule instances, a cached member longer than a fill batch, coinciding and one-second-off dates) with partial iterations and queries, cache on and off; "
          "every answer is compared with sorted((U incl) - (U excl)) computed from the members' own listings, the memo must always be a prefix of it, and the listing after a "
          "history must equal that of a freshly built set.",
  "note": "Member listings are the reference (C01). Live iterators kept across a mutation are not part of the statement and are not explored."},
 {"id": "C11", "engine": "E2-history + E3-schedule",
  "technique": "explicit-state BFS over iterator interleavings (one thread) + stateless preemption-bounded schedule exploration of real threads at source-line granularity",
  "text": "E2: all interleavings of new-iterator / next / list / count / index / slice / contains / between operations of 2-4 live iterators over a cached rule "
          "whose length straddles the fill batch (0,1,9,10,11,12,20,21), deduplicated on (cursors, cache length, complete flag, lock state); self-deadlock is detected through a model lock. "
          "E3: every schedule of 2 (thorough 3) threads running iterate/list/count/index/slice/contains over the same cached rule, scheduling point at every source line of rrule.py and "
          "every lock acquisition, preemption bound 2 (thorough 3); deadlock = no enabled thread; each thread must observe exactly the uncached sequence.",
  "note": "Preemption inside a line or inside C code is not modelled; lock seam rebinds dateutil.rrule._thread.allocate_lock (bind asserted; failure exits 2). "
          "Random schedules beyond the bound are sampling and are not done."},
 {"id": "C12", "engine": "E2-history",
  "technique": "explicit-state BFS over query histories on finite rules/sets (cache on/off) against plain list operations",
  "text": "For 8 finite rule/set objects x cache on/off, BFS over query histories (depth 2 quick / 3 thorough for cached objects whose state is (cache length, complete, known length); "
          "all single queries and ordered pairs for uncached ones) over a menu of ~900 queries (count, every index class, 294+ slices incl. negative and zero bounds, contains, "
          "after/before/between/xafter with element / one-second-off / far instants and inc) compared with list semantics on L; replace() compared with keyword reconstruction for "
          "every constructor parameter and pairs.",
  "note": "L = list(fresh uncached equal object) is the reference sequence."},
]
CHECKS += [
 {"id": "C06", "engine": "E1-shape + per-zone timeline walk",
  "technique": "exhaustive walk of every transition of every distinct TZif file and of synthetic TZif shapes against an independent decoder; all load paths compared",
  "text": "Every distinct TZif file of the installed database (447) and 16 synthetic files (negative DST, consecutive DST types, base change with DST change, same-offset type changes, "
          "first transition into DST / fold / gap, sub-minute offsets, no transitions, one type) are decoded independently; at every transition x 17 probe offsets (thorough: +-5 s of each "
          "and every 7 min within +-26 h) inside [t_first, t_last) and before the first transition the library must report the data's offset, abbreviation and dst()==0 on standard types. "
          "gettz / path / stream / BytesIO / in-memory archive (hard link, sym link, METADATA) / pickle 2-5 / copy / deepcopy must be equal and answer identically.",
  "note": "Corpus = system zoneinfo (the vendored tarball is absent from this tree); only the v1 data block (1901..2038) is decoded by library and reference; decoder cross-checked against CPython zoneinfo."},
 {"id": "C08", "engine": "E1-shape",
  "technique": "deviation-bounded exhaustive enumeration of POSIX TZ rule specs x zone classes x transition neighbourhoods against an independent POSIX evaluator cross-checked with glibc",
  "text": "All rule specs with <= k deviations (k=3 quick, 4 thorough) from EST5EDT,M3.2.0,M11.1.0 over offsets (half-hour, two-hour savings), M/J/n rule forms, times 0..26h, hemisphere, "
          "explicit/default DST offset; for tzstr, gettz, tzrange (equivalent relativedeltas) and tzlocal under TZ, offset/abbreviation/DST status at both transitions of 2023-2025 x probe offsets "
          "must equal the reference, which is compared with glibc on every probe (0 mismatches required). Fixed-offset strings, GMT+h sign and a malformed-string menu are checked too.",
  "note": "Trusts refs/posix_tz_ref.py (+glibc as second opinion). Negative savings and rules near the year boundary are outside the alphabet."},
]
CHECKS += [
 {"id": "C04", "engine": "E1-shape + per-zone timeline walk",
  "technique": "exhaustive walk of every offset change of every zone object (all TZif files, synthetic shapes, deviation-bounded POSIX rule specs as tzstr/tzrange/VTIMEZONE/tzlocal, fixed offsets) with UTC->local->UTC identity and an independent timeline",
  "text": "For 447 TZif files + 16 synthetic shapes, every rule spec with <= k deviations (k=3 quick, 4 thorough) in each of the four rule-zone classes, and 15 fixed-offset zones "
          "(sub-minute, +-23:59:59): at every transition x 17 probe offsets (thorough ~500) the converted datetime must satisfy utcoffset == wall - utc, convert back to the same instant, "
          "map distinct instants to distinct (wall, fold), and carry the offset and abbreviation the independent timeline assigns to that instant.",
  "note": "Reference timelines: refs/tzif_ref.py (v1 block, [.., t_last)), refs/posix_tz_ref.py (glibc-checked in C08). Rule specs with transition times outside the day are left to C08."},
 {"id": "C05", "engine": "E1-shape + per-zone timeline walk",
  "technique": "exhaustive enumeration of wall times at and around both edges of every gap and fold of every zone x fold in {0,1}; oracle = pre-image count from an independent timeline",
  "text": "Same zones as C04. For each transition the wall seconds lo-1, lo, lo+1, mid, hi-1, hi, hi+1, +-1 h, +-2 h (thorough: every second within 3 s of the edges and every minute of [lo-2h, hi+2h]) "
          "are classified by counting UTC pre-images on the independent timeline; datetime_exists / datetime_ambiguous, the meaning of fold, fold set by conversion from UTC, and "
          "resolve_imaginary (identity on existing times, forward by exactly the gap width otherwise) must agree.",
  "note": "Wall times with 3+ pre-images are counted and skipped; one synthetic shape (transitions closer than the offset change) is a recorded finding."},
 {"id": "C17", "engine": "E1-shape",
  "technique": "deviation-bounded exhaustive enumeration of rule pairs x VTIMEZONE text variants, differential against tzstr and the POSIX reference, incl. replay across the lookup cache",
  "text": "Every M-form rule spec with <= k deviations (k=2 quick, 4 thorough) rendered as VTIMEZONE with RRULEs or RDATE lists, both component orders, folded/unfolded, CRLF/LF; "
          "UTC-side and wall-side (both folds, exists/ambiguous) probes around the transitions of 1995 and 2024 must equal tzstr of the same rule and the independent reference; answers must not change when "
          "probes are replayed in rotated order across the 10-entry cache; first STANDARD applies before the first onset; TZID addressing; 13 malformed definitions must raise ValueError.",
  "note": "tzstr is the comparison zone (C08 vouches for it on these specs)."},
]
CHECKS += [
 {"id": "C18", "engine": "E2-history + E3-schedule",
  "technique": "explicit-state BFS over request/drop/gc/clear/resize histories on the real factories + stateless preemption-bounded schedule exploration incl. stdlib weakref.py lines + exhaustive pairwise value laws",
  "text": "E2: BFS (depth 5 quick / 7 thorough, pools of 3-10 keys incl. > strong-cache size) over get / drop / gc.collect / cache_clear / set_cache_size / nocache-instance operations on gettz, tzoffset "
          "(int and timedelta spellings), tzstr and tzutc: a request must return the very object the harness still holds for that key (within a cache_clear epoch), fresh constructors equal but distinct objects; "
          "an un-deduplicated DFS guards the canonical form. E3: every schedule (preemption bound 2; thorough 3 threads) of threads requesting the same key / A-B-A patterns with scheduling points at each "
          "line of _factories.py, the gettz function object and weakref.py: no exception, no half-built zone, one object per key. Values: all ordered pairs of 23 zones for ==/!= symmetry and equal offsets, "
          "copy/deepcopy/pickle 2-5 equal and identical in behaviour.",
  "note": "Preemption inside a line / C code not modelled; identity demanded per cache_clear epoch (pinned by the suite); random schedules beyond the bound are not done; pickle protocols 0/1 excluded (CPython __slots__ rule)."},
]
CHECKS += [
 {"id": "C07", "engine": "E1-shape",
  "technique": "exhaustive enumeration of dates x date styles x time forms x offsets x separators x input types; the independent renderer is the inverse",
  "text": "120 dates (week-year, leap and range boundaries) x 10 date styles (calendar/week/ordinal, basic/extended, date-only forms) x 6 times x every time form (5 precisions, 1..9 fraction digits, "
          "dot/comma, basic/extended) x every offset form and value (Z, z, +-hh, +-hhmm, +-hh:mm, -00:00, +-23:59) with 'T'; every separator (default ' ', 'x', '_'; configured 'T' and ' ') and "
          "bytes/stream inputs on reduced forms; all 24:00 spellings; parse_isodate / parse_isotime / parse_tzstr obey the same inverse law (~2.9M strings parsed per run).",
  "note": "refs/iso_ref.py renderer + date.isocalendar are trusted."},
 {"id": "C20", "engine": "E1-shape (edit neighbourhood)",
  "technique": "exhaustive enumeration of all strings within 1 (thorough 2) edits of every valid form + all short strings over a 12-character alphabet, against an independent ISO-8601 recogniser returning the set of readings",
  "text": "Every string within one edit (substitute/insert/delete over '019-:.,+TWZ_ a', adjacent transposition) of ~2600 valid strings of all supported forms, judged by the default and a sep='T' parser; "
          "thorough: within two edits of a core; every string of length <= 5 (6 thorough) over '0129-:+.,WZ ' at the four entry points; non-ASCII, separator mismatch, non-text. "
          "A returned value must be one of the readings the grammar assigns to the text; an empty reading set demands ValueError and no other exception type.",
  "note": "Rejecting is always sound here (acceptance is C07). Per the suite's own property test any single byte, even a digit, is a legal date/time separator when none is configured."},
]
CHECKS += [
 {"id": "C02", "engine": "E1-shape",
  "technique": "exhaustive enumeration of format templates x boundary datetimes x offset forms/values x flags x process TZ; the independent renderer is the inverse; two-digit years exhaustively under fake clocks",
  "text": "44 templates (ISO-like, compact, ctime, RFC 2822, month-name, 12-hour clock, NNhNNmNNs, dot/comma fractions, US/European/year-first numeric with matching flags) x 14 years "
          "(1..9999 incl. 4-digit years below 100) x 12 month/day pairs x 9 times x 9 offset forms x 7 offset values (to +-23:59) x process TZ settings: parse(render(dt)) must equal dt truncated "
          "to the rendered precision, naive iff no offset was rendered. Two-digit years: yy=00..99 x 6 templates x clocks 1999/2000/2049/2050/2099/real must give the unique year within -50..+49.",
  "note": "refs/parse_render.py is the inverse; parser clock seam (dateutil.parser._parser.time while a parserinfo is built, bind asserted); TZ+tzset seam."},
 {"id": "C14", "engine": "E1-shape (token automaton)",
  "technique": "exhaustive enumeration of all lexer-token sequences up to depth 3 (thorough 4) over a 50-token alphabet x 6 option sets; outcome-class, determinism, type-equivalence and ordered-pair carry-over oracles",
  "text": "Every sequence of up to 3 (thorough 4) tokens from an alphabet with one token per parser branch plus hostile ones (30-digit numbers, NUL, Arabic-Indic digit, superscript, inf/nan/e5) under "
          "default / fuzzy / fuzzy_with_tokens / dayfirst+yearfirst / ignoretz / tzinfos: the outcome must be a datetime (or documented pair), a ValueError-family exception or OverflowError, within a CPU cap, "
          "identical on re-evaluation; str/bytes/bytearray/stream agree on all token pairs; non-text raises TypeError; for all ordered pairs of a 300-string set the second call's outcome is independent of the first.",
  "note": "ParserError is read as the ValueError family; endless streams are outside the alphabet."},
 {"id": "C15", "engine": "E1-shape",
  "technique": "exhaustive enumeration of partial texts x defaults, of a zone-resolution decision table (zone text x tzinfos form x ignoretz x process TZ), of renderings x fillers, and of the token space for strict=>fuzzy",
  "text": "31 partial texts x 14 defaults (days 28-31, leap years, range ends) against replace-with-clipping and weekday-forward semantics; 22 zone texts x 8 tzinfos forms x ignoretz x 5 process TZ settings x 4 base "
          "times (incl. local folds) against the documented resolution order incl. exactly one UnknownTimezoneWarning; 17 renderings x 4 datetimes x 5 fillers for fuzzy and fuzzy_with_tokens (tokens a subsequence "
          "of the input, all filler words in order, no date digits); every token sequence up to depth 3/4 accepted strictly must give the same result with fuzzy and fuzzy_with_tokens.",
  "note": "Local-zone answers come from tz.tzlocal() (C08); a callable tzinfos consulted without zone text is left unjudged."},
]
# ---- what the build added after these texts were first written (widenings listed in DESIGN.md 7.6-7.8); numbers
# in the texts above that these sentences supersede are corrected here
_REPLACE = {
 "C10": [("the memo must always be a prefix of it, and the listing", "a memo that is not a prefix of it triggers one more observable listing on a rebuilt object, and the listing"),
         ("Live iterators kept across a mutation are not part of the statement and are not explored.",
          "Live iterators kept across a mutation are in the alphabet: later iterations and queries must be right whatever such an iterator does; its own output after the mutation is not judged.")],
 "C11": [("lock seam rebinds dateutil.rrule._thread.allocate_lock (bind asserted; failure exits 2)",
          "lock seam: dateutil.rrule._thread.allocate_lock plus any lock-typed attribute of the object, its cached members, their classes and private helper objects (a tree with no bindable lock exits 2, never 1)"),
         ("preemption bound 2 (thorough 3)", "preemption bound 2 (thorough: 2, and 3 for lengths 0-2 of the light driver; the heavier drivers complete bound 2 for lengths 0-1 and bound 1 above; every exploration runs to completion)")],
 "C12": [("For 8 finite rule/set objects", "For 12 finite rule/set objects (incl. BYSETPOS rules and rules whose BY-parts are defaults taken from the start)")],
 "C06": [("16 synthetic files", "21 synthetic files (also: a daylight type listed first, 200 local time types)"),
         ("in-memory archive (hard link, sym link, METADATA)", "in-memory archive (hard and symbolic link entries before or after their targets)")],
 "C17": [("13 malformed definitions must raise ValueError", "a malformed menu (mandatory lines missing from any component, TZID missing from any zone of a multi-zone text, bad offsets, unknown or unclosed components) must raise ValueError"),
         ("probes around the transitions of 1995 and 2024", "probes around the transitions of 1995 and 2024 and the second onset of the definition's first year")],
 "C02": [("44 templates", "54 templates (also the time of day before the date, a day glued to a month name)"),
         ("bind asserted", "bound iff the pivot follows it; otherwise only the real clock is examined")],
 "C07": [("1..9 fraction digits", "1..15 fraction digits")],
 "C15": [("31 partial texts", "about 300 partial texts (a small grammar of weekday / date part / time part, and two-number dates under the matching flags)"),
         ("8 tzinfos forms", "10 tzinfos forms"), ("5 process TZ settings", "7 process TZ settings (incl. a local zone that names its standard time UTC and has a summer time)")],
}
_ADD = {
 "C01": " Built later: COUNT and UNTIL together, nth-weekday ordinals up to 53 in every scope, BYSETPOS +-366 with an all-days BYDAY, every month named by some BYMONTH value, a start whose hour, minute and second lie in different residue classes.",
 "C03": " Built later: every yearday / nlyearday value 0..367, alone and with nine companion fields, resolved by the reference's own calendar arithmetic.",
 "C05": " Rule zones: deviation bound 3 in both tiers (the thorough tier spends its budget on probe density). Built later: hand-written PEP 495 tzinfo classes (no is_ambiguous of their own; honest and flat dst()) over the same timelines, so that the library's generic classification code is judged as well.",
 "C04": " Built later: probes reach past a final transition at 2^31-1; rule times with seconds; Monday rules; a naive conversion result is a violation of its own.",
 "C08": " Built later: hh:mm:ss rule times, Monday rules, standard time named GMT/UTC, names without an offset, every separator-terminated proper prefix of four valid strings as malformed input.",
 "C09": " Built later: aware pairs in a zone with DST on both sides of its transitions; years and months of the result may not have opposite signs.",
 "C13": " Built later: HTAB folding, explicit plus signs, a TZID spelled with '-' and '+', COUNT with UNTIL, rule texts without FREQ and with X- parts in the malformed menu; the rule is printed and listed again after the round trip (the text of the re-read rule is not compared).",
 "C14": " Built later: bytes are the UTF-8 encoding of every token pair (non-ASCII included), a whole-process call-order differential in fresh interpreters, a change of the process zone between two calls (same zone names, other offsets), nine long inputs (20 000-100 000 tokens) under a CPU-time cap.",
 "C16": " Built later: non-integer Decimal and Fraction years/months must be rejected like floats.",
 "C18": " Built later: 28 near-key request pairs (each result must behave as a zone freshly built from its own request), eviction scenarios beyond the strong-cache size, gettz with cache size 0 and with a thread shrinking the cache, the empty name under a TZ setting, synthetic tzfiles that differ in one respect only (phase, names, offsets, same file name).",
 "C20": " Built later: a field-boundary part (every field at and just outside its range), str / bytes / text-stream / byte-stream equivalence on texts with surrounding white space.",
}
for _c in CHECKS:
    for _a, _b in _REPLACE.get(_c["id"], []):
        for _k in ("text", "note"):
            if _a in _c[_k]:
                _c[_k] = _c[_k].replace(_a, _b)
    if _c["id"] in _ADD:
        _c["text"] += _ADD[_c["id"]]

_claimed = {c["id"] for c in CHECKS}
NOT_APPLICABLE = [{"property_id": p, "reason": "check not built yet (work in progress; see DESIGN.md §5 build order)"}
                  for p in ALL if p not in _claimed]
