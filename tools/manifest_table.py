HOOK_COMMITS = []
ALL = ["C%02d" % i for i in range(1, 21)]
CHECKS = [
 {"id": "C19", "engine": "E1-shape (exhaustive)",
  "technique": "exhaustive enumeration of every (year, method) in the documented ranges against an independent reference",
  "text": "Complete enumeration of the finite input space (years 1583..4099 x methods 2,3; 326..9999 x method 1; invalid methods) "
          "compared with independent Meeus/Jones/Butcher, Meeus-Julian and day-number conversion; the space is finite so the check decides the property.",
  "note": "Trusts CPython date arithmetic and the published algorithms in refs/easter_ref.py (self-checked each run)."},
]
_claimed = {c["id"] for c in CHECKS}
NOT_APPLICABLE = [{"property_id": p, "reason": "check not built yet (work in progress; see DESIGN.md §5 build order)"}
                  for p in ALL if p not in _claimed]
