#!/usr/bin/env python3
"""markdown table of seeded changes from seeded/*/meta.json (for DESIGN.md §7.6)"""
import glob, json, os
rows = []
for mp in sorted(glob.glob('/verif/seeded/*/meta.json')):
    m = json.load(open(mp))
    name = os.path.basename(os.path.dirname(mp))
    readme = m.get('breaks', '').strip().splitlines()
    first = next((l.strip('# ').strip() for l in readme if l.strip() and not l.startswith('```')), '')
    det = ', '.join(sorted(k for k, v in m.get('checks', {}).items() if v['exit'] == 1)) or '-'
    miss = ', '.join(sorted(k for k, v in m.get('checks', {}).items() if v['exit'] != 1)) or ''
    rows.append('| %s | %s | %s | %s | %s |' % (name, m['property'], first[:110].replace('|', '/'), det, miss))
print('| seed | property | change (first line of its README) | reported by | not reported by |')
print('|------|----------|-----------------------------------|-------------|-----------------|')
print('\n'.join(rows))
