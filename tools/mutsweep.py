#!/usr/bin/env python3
"""dev aid: automatic one-token mutation sweep of one library file against the repository's tests and the checks.

  tools/mutsweep.py FILE(rel. to src/dateutil) TESTFILES(comma sep, rel. to tests) CHECKS(comma sep) [--limit N] [--lines a-b]
                    [--out results.jsonl] [--par 4]

For every mutant: (1) the named test files must still pass (pre-filter; the full suite is run later only for the
mutants no check reports), (2) the named quick checks run with DATEUTIL_SRC=<mutant copy>.  /repo is never touched.
Output: one JSON line per mutant {line, old, new, tests: pass|fail, checks: {id: exit}, detected: bool}.
"""
import concurrent.futures, json, os, re, shutil, subprocess, sys, tempfile, tokenize, io

SWAPS = [(' == ', ' != '), (' != ', ' == '), (' <= ', ' < '), (' >= ', ' > '), (' < ', ' <= '), (' > ', ' >= '),
         (' + ', ' - '), (' - ', ' + '), (' and ', ' or '), (' or ', ' and '), (' is not None', ' is None'),
         (' is None', ' is not None'), ('not ', ''), (' // ', ' * '), (' % ', ' // '), ('+= ', '-= '), ('-= ', '+= '),
         ('True', 'False'), ('False', 'True'), (' in ', ' not in ')]
NUM = re.compile(r'(?<![\w.])(\d+)(?![\w.])')


def mutants(src, lo, hi):
    lines = src.split('\n')
    out = []
    in_doc = False
    for i, ln in enumerate(lines):
        st = ln.strip()
        q = st.count('"""') + st.count("'''")
        if in_doc:
            if q % 2:
                in_doc = False
            continue
        if q % 2:
            in_doc = True
            continue
        if not (lo <= i + 1 <= hi) or not st or st.startswith(('#', 'import ', 'from ', '"""', "'''", '@', 'def ', 'class ', 'raise ', 'warnings.', 'warn(')):
            continue
        code = ln.split('#')[0] if "'" not in ln and '"' not in ln else ln
        for a, b in SWAPS:
            start = 0
            while True:
                j = code.find(a, start)
                if j < 0:
                    break
                out.append((i, ln[:j] + b + ln[j + len(a):], a.strip() + ' -> ' + (b.strip() or '(removed)')))
                start = j + len(a)
        for m in NUM.finditer(code):
            if "'" in ln[:m.start()] and ln[:m.start()].count("'") % 2:
                continue
            v = int(m.group(1))
            for nv in (v + 1, v - 1):
                if nv < 0:
                    continue
                out.append((i, ln[:m.start()] + str(nv) + ln[m.end():], '%d -> %d' % (v, nv)))
    return out


_BASE = None


def baseline_subset_passes(junit, testfiles):
    """every pinned baseline test of the named modules passes (the always-failing ones are ignored)"""
    global _BASE
    import xml.etree.ElementTree as ET
    if _BASE is None:
        _BASE = set(json.load(open('/root/.vp/BASELINE.json'))['stable_pass'])
    mods = tuple('tests.' + t[:-3].replace('/', '.') for t in testfiles)
    need = set(x for x in _BASE if x.split('::')[0].startswith(mods))
    try:
        t = ET.parse(junit)
    except Exception:
        return False
    passed = set()
    for tc in t.iter('testcase'):
        if not any(c.tag in ('failure', 'error', 'skipped') for c in tc):
            passed.add('%s::%s' % (tc.get('classname'), tc.get('name')))
    return need <= passed


def run_one(args):
    idx, relfile, lineno, newline, desc, testfiles, checks, jobs = args
    tmp = tempfile.mkdtemp(prefix='ms_', dir='/tmp')
    res = {'i': idx, 'line': lineno + 1, 'desc': desc, 'new': newline.strip()[:160]}
    try:
        shutil.copytree('/repo/src', os.path.join(tmp, 'src'), ignore=shutil.ignore_patterns('__pycache__', '*.egg-info'))
        p = os.path.join(tmp, 'src', 'dateutil', relfile)
        lines = open(p).read().split('\n')
        res['old'] = lines[lineno].strip()[:160]
        lines[lineno] = newline
        text = '\n'.join(lines)
        try:
            compile(text, p, 'exec')
        except SyntaxError:
            res['tests'] = 'syntax'
            return res
        open(p, 'w').write(text)
        shutil.copytree('/repo/tests', os.path.join(tmp, 'tests'), ignore=shutil.ignore_patterns('__pycache__'))
        for f in ('setup.cfg', 'pyproject.toml', 'tox.ini', 'conftest.py'):
            if os.path.exists('/repo/' + f):
                shutil.copy('/repo/' + f, tmp)
        env = dict(os.environ, PYTHONPATH=os.path.join(tmp, 'src'))
        env.pop('DATEUTIL_VERIF', None)
        try:
            jx = os.path.join(tmp, 'junit.xml')
            subprocess.run(['/venv/bin/python', '-m', 'pytest', '-q', '-p', 'no:cacheprovider', '--timeout=120', '-o', 'addopts=',
                            '-W', 'ignore', '--junitxml=' + jx] + ['tests/' + t for t in testfiles], cwd=tmp, env=env,
                           capture_output=True, text=True, timeout=1200)
            res['tests'] = 'pass' if baseline_subset_passes(jx, testfiles) else 'fail'
        except subprocess.TimeoutExpired:
            res['tests'] = 'fail'
        if res['tests'] != 'pass':
            return res
        res['checks'] = {}
        for c in checks:
            try:
                r = subprocess.run(['/verif/check', c], env=dict(os.environ, DATEUTIL_SRC=os.path.join(tmp, 'src'), VERIF_JOBS=str(jobs),
                                                                  VERIF_MAXVIOL='3'),
                                   capture_output=True, text=True, timeout=1500)
                res['checks'][c] = r.returncode
                if r.returncode == 1:
                    break
            except subprocess.TimeoutExpired:
                res['checks'][c] = 'timeout'
        res['detected'] = any(v == 1 for v in res['checks'].values())
        return res
    finally:
        shutil.rmtree(tmp, ignore_errors=True)


def main():
    a = sys.argv[1:]
    relfile, testfiles, checks = a[0], a[1].split(','), a[2].split(',')
    opt = dict(zip(a[3::2], a[4::2]))
    limit = int(opt.get('--limit', '0'))
    par = int(opt.get('--par', '4'))
    lo, hi = 1, 10 ** 9
    if '--lines' in opt:
        lo, hi = [int(x) for x in opt['--lines'].split('-')]
    out = opt.get('--out', '/tmp/mutsweep_%s.jsonl' % relfile.replace('/', '_'))
    src = open(os.path.join('/repo/src/dateutil', relfile)).read()
    ms = mutants(src, lo, hi)
    stride = int(opt.get('--stride', '1'))
    ms = ms[int(opt.get('--offset', '0'))::stride]
    if limit:
        ms = ms[:limit]
    print('mutants:', len(ms), file=sys.stderr)
    jobs = max(1, 16 // par)
    tasks = [(k, relfile, i, nl, d, testfiles, checks, jobs) for k, (i, nl, d) in enumerate(ms)]
    n = 0
    with open(out, 'a') as fo, concurrent.futures.ThreadPoolExecutor(par) as ex:
        for res in ex.map(run_one, tasks):
            fo.write(json.dumps(res) + '\n')
            fo.flush()
            n += 1
            if res.get('tests') == 'pass':
                print('%4d L%-5d %-22s tests=pass %s %s' % (n, res['line'], res['desc'], 'DETECTED' if res['detected'] else 'SURVIVED',
                                                         res.get('checks')), flush=True)
    subprocess.run(['git', '-C', '/verif', 'checkout', '--', 'evidence'], capture_output=True)


if __name__ == '__main__':
    main()
