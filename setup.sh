#!/bin/bash
# Offline setup: nothing to build (pure Python). Syntax-check every module and run the engines' self-tests.
set -e
cd "$(dirname "$0")"
export PYTHONPATH="/repo/src:$PWD" PYTHONHASHSEED=0 PYTHONDONTWRITEBYTECODE=1
/venv/bin/python - <<'PY'
import glob
for f in sorted(glob.glob('mc/*.py') + glob.glob('props/*.py') + glob.glob('refs/*.py')):
    with open(f) as fh:
        compile(fh.read(), f, 'exec')
print('syntax ok')
PY
/venv/bin/python -m mc.selftest
