"""./check <ID> [--tier quick|thorough] [--replay PATH] [--part NAME]"""
import argparse
import importlib
import json
import os
import sys
import time
import warnings

from mc import core, codec


def main(argv=None):
    ap = argparse.ArgumentParser()
    ap.add_argument('prop')
    ap.add_argument('--tier', default=os.environ.get('VERIF_TIER', 'quick'),
                    choices=['quick', 'thorough'])
    ap.add_argument('--replay')
    ap.add_argument('--part', action='append', help='run only the named part(s) (development aid)')
    args = ap.parse_args(argv)
    pid = args.prop.upper()
    try:
        seed = int(os.environ.get('VERIF_SEED', '0'))
    except ValueError:
        seed = 0
    modname = 'props.%s' % pid.lower()
    try:
        core.assert_repo()
        mod = importlib.import_module(modname)
    except core.HarnessError as e:
        print("HARNESS-ERROR property=%s %s" % (pid, e))
        return 2
    if args.replay:
        with open(args.replay) as f:
            doc = json.load(f)
        case = codec.dec(doc['case'])
        res = mod.replay(doc['part'], case)
        if res:
            print("REPRODUCED property=%s part=%s" % (pid, doc['part']))
            print(json.dumps(codec.enc(res), sort_keys=True, indent=1)[:3000])
            return 1
        print("NOT-REPRODUCED property=%s (the case passes on this tree)" % pid)
        return 0
    ctx = core.Ctx(pid, args.tier, seed, modname)
    ctx.only_parts = set(args.part) if args.part else None
    try:
        mod.run(ctx)
        code = core.finish(ctx, mod)
    except core.HarnessError as e:
        print("HARNESS-ERROR property=%s %s" % (pid, e))
        if ctx.violations:
            # Parts that had already completed found violations: those verdicts stand on their own replays and are
            # reported; the part that failed contributes nothing.
            ctx.exhaustive = False
            ctx.assumptions.append('a later part aborted with a harness error (%s); only completed parts are reported' % str(e)[:120])
            try:
                code = core.finish(ctx, mod)
            except Exception:
                import traceback
                traceback.print_exc()
                return 2
            return 1 if code == 1 else 2
        return 2
    except Exception as e:
        # a crash of the machinery itself is never a verdict about the property
        import traceback
        print("HARNESS-ERROR property=%s internal error: %s: %s" % (pid, type(e).__name__, e))
        traceback.print_exc()
        return 2
    if os.environ.get('VERIF_DEBUG'):
        import collections
        h = collections.Counter()
        ex = {}
        fine = os.environ.get('VERIF_DEBUG') == 'fine'
        for part, idx, case, detail in ctx.violations:
            key = (part, detail.get('kind'))
            if fine and isinstance(case, dict):
                key += (tuple(sorted(k for k in case if k not in ('freq', 'start'))), case.get('freq'))
            h[key] += 1
            ex.setdefault(key, (case, detail))
        for key, n in sorted(h.items(), key=lambda x: -x[1])[:40]:
            print('DEBUG', n, key)
            if not fine:
                print('      ', json.dumps(codec.enc(ex[key]), sort_keys=True)[:500])
    print("%s tier=%s seed=%d evaluations=%d transitions=%d nontrivial=%d capped=%d "
          "violations_raw=%d exhaustive=%s wall=%.1fs -> exit %d"
          % (pid, ctx.tier, seed, ctx.counts['evaluations'], ctx.counts['transitions'],
             (len(ctx.nontrivial_keys) + ctx.nontrivial_count), ctx.counts['capped'], ctx.counts['violations_raw'],
             ctx.exhaustive and not ctx.counts['capped'], time.time() - ctx.t0, code))
    return code


if __name__ == '__main__':
    sys.exit(main())
