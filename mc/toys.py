"""Toy harness bodies for the schedule explorer's self-test (kept in their own file so that
only these lines are scheduling points)."""


def counter(lock_factory, locked):
    box = {'n': 0}
    lock = lock_factory()

    def body():
        if locked:
            lock.acquire()
        v = box['n']
        v = v + 1
        box['n'] = v
        if locked:
            lock.release()
        return v
    return [body, body], box


def leak(lock_factory):
    lock = lock_factory()

    def body():
        lock.acquire()
        return 1                      # forgets to release

    return [body, body], None
