"""Run context shared by all checks: parallel exhaustive map, violation
bookkeeping, known-findings matching, replay files, evidence writing."""
import collections
import hashlib
import itertools
import json
import multiprocessing
import os
import signal
import sys
import time
import traceback

from mc import codec

ROOT = os.path.dirname(os.path.dirname(os.path.abspath(__file__)))
REPO_SRC = os.environ.get('DATEUTIL_SRC', '/repo/src')
NPROC = int(os.environ.get('VERIF_JOBS', '0')) or min(16, os.cpu_count() or 1)


class HarnessError(Exception):
    """The harness cannot bind to the code (exit 2, never a VIOLATION)."""


class Capped(BaseException):
    """A per-case budget was hit; the case is counted as capped, not judged."""


class Res(object):
    """Result of evaluating one case."""
    __slots__ = ('trans', 'nontrivial', 'outcome', 'viols', 'capped', 'key',
                 'extra', 'sample')

    def __init__(self, trans=1, nontrivial=True, outcome='ok', viols=None,
                 capped=False, key=None, extra=None, sample=None):
        self.trans = trans
        self.nontrivial = nontrivial
        self.outcome = outcome
        self.viols = viols or []     # list of dict(detail) -- each gets the case attached
        self.capped = capped
        self.key = key               # dedup key for distinct_nontrivial (defaults to case index)
        self.extra = extra           # Counter-like additional counts
        self.sample = sample         # optional sample rendering of the case


def with_alarm(seconds, fn, *a, **kw):
    """Run fn under a wall-clock cap (main thread of a worker process)."""
    def onalarm(signum, frame):
        raise Capped()
    old = signal.signal(signal.SIGALRM, onalarm)
    outer = signal.setitimer(signal.ITIMER_REAL, seconds)[0]      # an enclosing cap, if any: re-armed afterwards
    t0 = time.time()
    try:
        return fn(*a, **kw)
    finally:
        signal.setitimer(signal.ITIMER_REAL, 0)
        signal.signal(signal.SIGALRM, old)
        if outer > 0:
            signal.setitimer(signal.ITIMER_REAL, max(0.001, outer - (time.time() - t0)))


_WORK = {}


def _init_worker(modname, setup_arg):
    import importlib
    mod = importlib.import_module(modname)
    _WORK['mod'] = mod
    assert_repo()
    if hasattr(mod, 'worker_setup'):
        mod.worker_setup(setup_arg)


def _run_chunk(arg):
    fname, base, cases = arg
    mod = _WORK['mod']
    fn = getattr(mod, fname)
    agg = collections.Counter()
    outcomes = collections.Counter()
    viols = []
    samples = []
    keys = set()
    for off, case in enumerate(cases):
        idx = base + off
        try:
            r = fn(case)
        except Capped:
            r = Res(trans=0, nontrivial=False, outcome='capped', capped=True)
        except HarnessError:
            raise
        except Exception as e:   # an oracle crash must not pass silently
            r = Res(outcome='harness-exception',
                    viols=[{'kind': 'harness-exception',
                            'error': '%s: %s' % (type(e).__name__, e),
                            'tb': traceback.format_exc()[-1500:]}])
        agg['evaluations'] += 1
        agg['transitions'] += r.trans
        if r.capped:
            agg['capped'] += 1
        if r.nontrivial:
            if r.key is not None:
                keys.add(r.key)
            else:
                agg['nontrivial_by_index'] += 1          # case indices are distinct by construction: counted, not stored
        outcomes[r.outcome] += 1
        if r.extra:
            agg.update(r.extra)
        for v in r.viols:
            if len(viols) < 2000:
                # tagged JSON, not live objects: a witness holding an unpicklable value must not kill the result pipe
                viols.append((idx, codec.enc(case), codec.enc(v)))
            agg['violations_raw'] += 1
        if r.sample is not None and len(samples) < 2:
            samples.append(codec.enc(r.sample))
    return agg, outcomes, viols, samples, keys


def assert_repo():
    import dateutil
    f = os.path.realpath(dateutil.__file__)
    if not f.startswith(os.path.realpath(REPO_SRC) + os.sep):
        raise HarnessError("dateutil imported from %s, not from %s" % (f, REPO_SRC))


def chunked(it, n):
    it = iter(it)
    base = 0
    while True:
        chunk = list(itertools.islice(it, n))
        if not chunk:
            return
        yield base, chunk
        base += len(chunk)


class Ctx(object):
    def __init__(self, prop_id, tier, seed, modname):
        self.id = prop_id
        self.tier = tier
        self.seed = seed
        self.modname = modname
        self.t0 = time.time()
        self.counts = collections.Counter()
        self.outcomes = collections.Counter()
        self.violations = []     # (part, idx, case, detail)
        self.samples = []
        self.nontrivial_keys = set()
        self._open_findings = None
        self.known_stored = 0
        self.nontrivial_count = 0            # non-trivial cases keyed by their (distinct) index
        self.parts = []          # per-part summaries
        self.coverage_extra = {}
        self.assumptions = []
        self.exhaustive = True
        self.deadline = None
        self.notes = []

    @property
    def thorough(self):
        return self.tier == 'thorough'

    def pick(self, quick, thorough):
        return thorough if self.thorough else quick

    def rotate(self, seq, n):
        """Seed-rotated sub-list of length n (quick tier); everything in thorough."""
        seq = list(seq)
        if self.thorough or n >= len(seq):
            return seq
        k = self.seed % len(seq)
        rot = seq[k:] + seq[:k]
        return rot[:n]

    # -- exhaustive parallel map ------------------------------------------
    def explore(self, part, cases, fname, chunk=64, setup_arg=None, space_size=None,
                serial=False, time_cap=None, sample_every=None):
        """Evaluate mod.<fname>(case) for every case. Returns part summary."""
        t0 = time.time()
        agg = collections.Counter()
        outcomes = collections.Counter()
        nviol_before = len(self.violations)
        new_here = 0
        keys = set()
        samples = []
        complete = True
        it = ((fname, base, ch) for base, ch in chunked(cases, chunk))
        if serial or NPROC == 1:
            _init_worker(self.modname, setup_arg)
            results = map(_run_chunk, it)
            pool = None
        else:
            mpctx = multiprocessing.get_context('fork')
            pool = mpctx.Pool(NPROC, initializer=_init_worker,
                              initargs=(self.modname, setup_arg))
            results = pool.imap(_run_chunk, it)
        try:
            for a, o, v, s, k in results:
                agg.update(a)
                outcomes.update(o)
                keys.update((part, x) for x in k)
                for idx, case, detail in v:
                    dcase, ddetail = codec.dec(case), codec.dec(detail)
                    if self._is_known(dcase, ddetail):
                        # witnesses of a recorded finding never use up the room of other violations
                        if self.known_stored < 400:
                            self.violations.append((part, idx, dcase, ddetail))
                            self.known_stored += 1
                        continue
                    if new_here < int(os.environ.get('VERIF_MAXVIOL', '400')):
                        self.violations.append((part, idx, dcase, ddetail))
                        new_here += 1
                if len(samples) < 3:
                    samples.extend(s[:3 - len(samples)])
                if time_cap and time.time() - t0 > time_cap:
                    complete = False
                    break
        finally:
            if pool is not None:
                pool.terminate()
                pool.join()
        if not complete:
            self.exhaustive = False
        summ = dict(part=part, evaluations=agg['evaluations'], transitions=agg['transitions'],
                    capped=agg['capped'], violations_raw=agg['violations_raw'],
                    distinct_nontrivial=len(keys) + agg['nontrivial_by_index'], complete=complete,
                    wall_s=round(time.time() - t0, 2), outcomes=dict(outcomes))
        if space_size is not None:
            summ['space_size'] = space_size
            if complete and space_size != agg['evaluations']:
                raise HarnessError("part %s: enumerated %d cases, computed space size %d"
                                   % (part, agg['evaluations'], space_size))
        extra = {k: v for k, v in agg.items()
                 if k not in ('evaluations', 'transitions', 'capped', 'violations_raw', 'nontrivial_by_index')}
        if extra:
            summ['extra'] = extra
        self.parts.append(summ)
        self.counts.update(agg)
        self.outcomes.update({'%s:%s' % (part, k): v for k, v in outcomes.items()})
        self.nontrivial_keys.update(keys)
        self.nontrivial_count += agg['nontrivial_by_index']
        for s in samples:
            if len(self.samples) < 12:
                self.samples.append({'part': part, 'case': s})        # already tagged JSON (encoded in the worker)
        return summ

    def _is_known(self, case, detail):
        """does this witness match an open entry of known_findings.json (same rule as finish())"""
        if self._open_findings is None:
            self._open_findings = [f for f in load_findings() if f.get('property') == self.id and f.get('status') == 'open']
        if not self._open_findings or detail.get('kind') == 'harness-exception':
            return False
        try:
            import importlib
            mod = importlib.import_module(self.modname)
            sig = codec.enc(mod.signature(case, detail)) if hasattr(mod, 'signature') else {}
        except Exception:
            return False
        return any(sig_matches(f['signature'], sig) for f in self._open_findings)

    def add_violation(self, part, case, detail, idx=-1):
        self.violations.append((part, idx, case, detail))
        self.counts['violations_raw'] += 1

    def note_part(self, **summ):
        self.parts.append(summ)
        for k in ('evaluations', 'transitions', 'capped'):
            self.counts[k] += summ.get(k, 0)

    def add_sample(self, part, s):
        if len(self.samples) < 16:
            self.samples.append({'part': part, 'case': codec.enc(s)})


REPLAY_TEST = '''"""Plain unit test replaying one recorded violation without the explorer.
Run: PYTHONPATH=/repo/src:%(root)s /venv/bin/python -m pytest %(root)s/replays/%(id)s/test_replay_%(sha)s.py"""
import json, sys
sys.path.insert(0, %(root)r)
from mc import codec
import importlib


def test_replay_%(sha)s():
    doc = json.load(open(%(path)r))
    mod = importlib.import_module('props.' + %(id)r.lower())
    failures = mod.replay(doc['part'], codec.dec(doc['case']))
    assert not failures, failures
'''


# -- known findings ---------------------------------------------------------

def load_findings():
    p = os.path.join(ROOT, 'known_findings.json')
    if not os.path.exists(p):
        return []
    with open(p) as f:
        return json.load(f).get('findings', [])


def sig_matches(entry_sig, sig):
    """An entry matches when every key it lists equals the witness's value."""
    for k, v in entry_sig.items():
        if sig.get(k) != v:
            return False
    return True


def finish(ctx, mod):
    """Classify violations, write replays/evidence, print verdict lines, return exit code."""
    findings = [f for f in load_findings() if f.get('property') == ctx.id]
    open_f = [f for f in findings if f.get('status') == 'open']
    matched = collections.OrderedDict()
    unmatched = []
    for part, idx, case, detail in ctx.violations:
        try:
            sig = mod.signature(case, detail) if hasattr(mod, 'signature') else {}
        except Exception as e:
            sig = {'signature-error': repr(e)}
        sig = codec.enc(sig)
        hit = None
        if detail.get('kind') != 'harness-exception':
            for f in open_f:
                if sig_matches(f['signature'], sig):
                    hit = f
                    break
        if hit is not None:
            matched.setdefault(hit['id'], [hit, 0])
            matched[hit['id']][1] += 1
        else:
            unmatched.append((part, idx, case, detail, sig))
    for fid, (f, n) in matched.items():
        print("KNOWN-FINDING: property=%s %s [%s; %d witnesses this run]"
              % (ctx.id, f['description'], fid, n))
    # distinct signatures first, fewest-deviation first (stable order of discovery)
    seen = set()
    reported = []
    for u in unmatched:
        key = json.dumps(u[4], sort_keys=True)
        if key in seen:
            continue
        seen.add(key)
        reported.append(u)
        if len(reported) >= 8:
            break
    exit_code = 0
    rdir = os.path.join(ROOT, 'replays', ctx.id)
    harness_fail = False
    for part, idx, case, detail, sig in reported:
        if detail.get('kind') == 'harness-exception':
            harness_fail = True
            print("HARNESS-ERROR property=%s part=%s %s" % (ctx.id, part, detail.get('error')))
            print(detail.get('tb', ''))
            continue
        doc = {'property': ctx.id, 'part': part, 'case': codec.enc(case),
               'detail': codec.enc(detail), 'signature': sig,
               'tier': ctx.tier, 'seed': ctx.seed}
        blob = json.dumps(doc, sort_keys=True, indent=1)
        sha = hashlib.sha1(json.dumps([doc['part'], doc['case'], doc['signature']], sort_keys=True).encode()).hexdigest()[:12]
        os.makedirs(rdir, exist_ok=True)
        path = os.path.join(rdir, '%s.json' % sha)
        with open(path, 'w') as f:
            f.write(blob + '\n')
        # re-execute once before reporting
        ok = True
        if hasattr(mod, 'replay'):
            try:
                again = mod.replay(part, case)
                ok = bool(again)
            except Exception as e:
                ok = True   # an exception on replay is still a failure of the case
        if not ok:
            harness_fail = True
            print("HARNESS-ERROR property=%s violation did not reproduce on re-execution: %s"
                  % (ctx.id, path))
            continue
        with open(os.path.join(rdir, 'test_replay_%s.py' % sha), 'w') as f:
            f.write(REPLAY_TEST % {'root': ROOT, 'id': ctx.id, 'path': path, 'sha': sha})
        print("VIOLATION property=%s replay=%s" % (ctx.id, path))
        print("  part=%s signature=%s" % (part, json.dumps(sig, sort_keys=True)))
        print("  detail=%s" % json.dumps(codec.enc(detail), sort_keys=True)[:600])
        exit_code = 1
    if harness_fail and exit_code == 0:
        exit_code = 2
    write_evidence(ctx, matched, len(unmatched))
    return exit_code


def write_evidence(ctx, matched, n_unmatched):
    cov = {
        'states': (len(ctx.nontrivial_keys) + ctx.nontrivial_count) if not ctx.coverage_extra.get('states') else ctx.coverage_extra['states'],
        'transitions': ctx.counts['transitions'],
        'traces_validated_against_impl': ctx.coverage_extra.get(
            'traces_validated_against_impl', ctx.counts['evaluations']),
        'samples': ctx.samples[:16] or [{'note': 'no samples recorded'}],
        'evaluations': ctx.counts['evaluations'],
        'distinct_nontrivial': (len(ctx.nontrivial_keys) + ctx.nontrivial_count),
        'exhaustive': bool(ctx.exhaustive and not ctx.counts['capped']),
        'capped': ctx.counts['capped'],
        'parts': ctx.parts,
        'outcome_histogram': dict(ctx.outcomes),
        'known_findings_matched': {k: v[1] for k, v in matched.items()},
        'violations_raw': ctx.counts['violations_raw'],
    }
    for k, v in ctx.coverage_extra.items():
        if k not in ('states', 'traces_validated_against_impl'):
            cov[k] = v
    cov['states'] = max(1, cov['states'])
    cov['transitions'] = max(1, cov['transitions'])
    doc = {
        'property_id': ctx.id,
        'tier': ctx.tier,
        'seed': ctx.seed,
        'level': 'model_checking',
        'coverage': cov,
        'assumptions': ctx.assumptions,
        'wall_s': round(time.time() - ctx.t0, 2),
        'violations': n_unmatched,
    }
    os.makedirs(os.path.join(ROOT, 'evidence'), exist_ok=True)
    path = os.path.join(ROOT, 'evidence', '%s.json' % ctx.id)
    tmp = path + '.tmp'
    with open(tmp, 'w') as f:
        json.dump(doc, f, indent=1, sort_keys=True, default=repr)
        f.write('\n')
    os.replace(tmp, path)
