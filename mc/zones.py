"""Zone objects from small JSON-able specs (so witnesses can name their zone)."""
import os


def build(spec):
    from dateutil import tz
    if spec is None:
        return None
    if isinstance(spec, str):
        raise ValueError("zone given by repr only, cannot rebuild: %s" % spec)
    spec = tuple(spec)
    kind = spec[0]
    if kind == 'utc':
        z = tz.tzutc()
    elif kind == 'UTC':
        z = tz.UTC
    elif kind == 'offset':
        z = tz.tzoffset(spec[1], spec[2])
    elif kind == 'gettz':
        z = tz.gettz(spec[1])
    elif kind == 'tzstr':
        z = tz.tzstr(spec[1], **(dict(spec[2]) if len(spec) > 2 else {}))
    elif kind == 'file':
        z = tz.tzfile(spec[1])
    elif kind == 'local':
        z = tz.tzlocal()
    else:
        raise ValueError("unknown zone spec %r" % (spec,))
    if z is not None:
        try:
            z._verif_spec = spec
        except Exception:
            pass
    return z
