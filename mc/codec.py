"""Tagged-JSON codec for witnesses (replay files, samples, known findings).

Cases explored by the engines are plain Python values (ints, strings, tuples,
datetimes, weekdays, relativedeltas, zone *specs*).  Only violations and samples
are serialised, so the codec favours readability over speed.
"""
import datetime as D
import json


def enc(o):
    if o is None or isinstance(o, (bool, int, str)):
        return o
    if isinstance(o, float):
        if o != o or o in (float('inf'), float('-inf')):
            return {"$f": repr(o)}
        return o
    if isinstance(o, bytes):
        return {"$b": o.decode('latin-1')}
    if isinstance(o, tuple):
        return {"$t": [enc(x) for x in o]}
    if isinstance(o, (list,)):
        return [enc(x) for x in o]
    if isinstance(o, (set, frozenset)):
        return {"$set": sorted((enc(x) for x in o), key=repr)}
    if isinstance(o, dict):
        if all(isinstance(k, str) and not k.startswith('$') for k in o):
            return {k: enc(v) for k, v in o.items()}
        return {"$d": [[enc(k), enc(v)] for k, v in o.items()]}
    if isinstance(o, D.datetime):
        r = {"$dt": o.replace(tzinfo=None).isoformat()}
        if o.fold:
            r["fold"] = 1
        if o.tzinfo is not None:
            r["tz"] = tzdesc(o.tzinfo)
            try:
                off = o.utcoffset()
                r["off"] = None if off is None else off.total_seconds()
            except Exception as e:  # pragma: no cover
                r["off"] = "error:%s" % type(e).__name__
        return r
    if isinstance(o, D.date):
        return {"$date": o.isoformat()}
    if isinstance(o, D.time):
        return {"$time": o.isoformat()}
    if isinstance(o, D.timedelta):
        return {"$td": [o.days, o.seconds, o.microseconds]}
    tn = type(o).__name__
    if tn == 'weekday' and hasattr(o, 'weekday'):
        return {"$wd": [o.weekday, o.n]}
    if tn == 'relativedelta':
        return {"$rd": rd_fields(o)}
    if isinstance(o, BaseException):
        return {"$exc": type(o).__name__, "msg": str(o)[:200]}
    if isinstance(o, D.tzinfo):
        return {"$tz": tzdesc(o)}
    return {"$repr": repr(o)[:300]}


RD_FIELDS = ("years", "months", "days", "leapdays", "hours", "minutes",
             "seconds", "microseconds", "year", "month", "day", "weekday",
             "hour", "minute", "second", "microsecond")


def rd_fields(rd):
    out = {}
    for f in RD_FIELDS:
        v = getattr(rd, f, None)
        if f == 'weekday':
            if v is not None:
                out[f] = enc(v)
        elif v not in (None, 0) or (v == 0 and f in RD_FIELDS[8:] and v is not None):
            out[f] = v
    return out


def tzdesc(z):
    """Readable description of a tzinfo; zones that the harness builds from
    specs carry their spec in _verif_spec."""
    spec = getattr(z, '_verif_spec', None)
    if spec is not None:
        return enc(spec)
    return repr(z)[:200]


def dec(o):
    if isinstance(o, list):
        return [dec(x) for x in o]
    if not isinstance(o, dict):
        return o
    if "$t" in o:
        return tuple(dec(x) for x in o["$t"])
    if "$b" in o:
        return o["$b"].encode('latin-1')
    if "$f" in o:
        return float(o["$f"])
    if "$set" in o:
        return set(dec(x) for x in o["$set"])
    if "$d" in o:
        return {dec(k): dec(v) for k, v in o["$d"]}
    if "$dt" in o:
        dt = D.datetime.fromisoformat(o["$dt"])
        if o.get("fold"):
            dt = dt.replace(fold=1)
        if "tz" in o:
            from mc import zones
            try:
                dt = dt.replace(tzinfo=zones.build(dec(o["tz"])))
            except Exception:
                return o          # a zone known only by its repr: keep the tagged form (readable, not rebuildable)
        return dt
    if "$date" in o:
        return D.date.fromisoformat(o["$date"])
    if "$time" in o:
        return D.time.fromisoformat(o["$time"])
    if "$td" in o:
        return D.timedelta(*o["$td"])
    if "$wd" in o:
        from dateutil.relativedelta import weekday
        return weekday(o["$wd"][0], o["$wd"][1])
    if "$rd" in o:
        from dateutil.relativedelta import relativedelta
        return relativedelta(**{k: dec(v) for k, v in o["$rd"].items()})
    if "$tz" in o:
        from mc import zones
        try:
            return zones.build(dec(o["$tz"]))
        except Exception:
            return o              # known only by its repr
    if "$repr" in o or "$exc" in o:
        return o
    return {k: dec(v) for k, v in o.items()}


def dumps(o, **kw):
    return json.dumps(enc(o), sort_keys=True, **kw)


def loads(s):
    return dec(json.loads(s))
