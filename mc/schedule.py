"""E3: stateless, preemption-bounded exploration of real Python threads (CHESS style).

Each virtual thread is a real threading.Thread; exactly one holds the baton (a
per-thread semaphore).  sys.settrace is installed inside each worker thread; every
'line' event in a traced source file is a scheduling point, as is every
ModelLock.acquire.  "No enabled thread and not all finished" is a deadlock; a
per-execution step budget catches livelock; a watchdog turns a real hang into a
HarnessError (never into a violation).

Exploration: run a prefix of choices, then the default (keep running the current
thread if it is enabled, else the lowest id); for every later point and every
alternative whose cost (preemptions so far, +1 when the running thread was still
enabled) stays within the bound, recurse.  An out-of-range choice while replaying
a prefix is a hard error (replay divergence).
"""
import collections
import sys
import threading
import time

from mc.core import HarnessError


class Abort(BaseException):
    pass


class ModelLock(object):
    """Replacement for _thread.lock whose acquire is a scheduling point and which
    records blocked threads instead of blocking for real."""

    def __init__(self, sched_ref):
        self._ref = sched_ref        # callable -> current Exec or None
        self.owner = None

    def _ex(self):
        return self._ref()

    def acquire(self, blocking=True, timeout=-1):
        ex = self._ex()
        me = ex.current() if ex is not None else None
        if me is None:
            # outside an exploration (setup/teardown code on the main thread)
            if self.owner is not None:
                if not blocking:
                    return False
                raise SelfDeadlock("model lock acquired while held, outside the scheduler")
            self.owner = 'main'
            return True
        while True:
            ex.point(('acquire',))
            if self.owner is None:
                self.owner = me
                return True
            if not blocking:
                return False
            ex.block(me, self)

    def release(self):
        if self.owner is None:
            raise RuntimeError("release unlocked lock")
        self.owner = None
        ex = self._ex()
        if ex is not None:
            ex.unblock(self)

    def locked(self):
        return self.owner is not None

    def __enter__(self):
        self.acquire()
        return self

    def __exit__(self, *a):
        self.release()


class SelfDeadlock(Exception):
    """single-threaded acquire of a held ModelLock (would hang for real)"""


class Exec(object):
    """One controlled execution of `bodies` (list of zero-argument callables)."""

    def __init__(self, bodies, prefix, traced_files, max_steps=40000, opcode=False):
        self.bodies = bodies
        self.prefix = list(prefix)
        self.traced = traced_files
        self.n = len(bodies)
        self.sems = [threading.Semaphore(0) for _ in bodies]
        self.main_sem = threading.Semaphore(0)
        self.done = [False] * self.n
        self.blocked = {}
        self.tls = threading.local()
        self.choices = []
        self.points = []            # (running tid or None, enabled order tuple, running_still_enabled)
        self.abort = False
        self.deadlock = False
        self.livelock = False
        self.diverged = None
        self.errors = [None] * self.n
        self.results = [None] * self.n
        self.steps = 0
        self.max_steps = max_steps
        self.opcode = opcode
        self.trace_log = []         # (tid, lineno) of scheduling points, for explanations

    # -- helpers used by ModelLock and the trace function
    def current(self):
        return getattr(self.tls, 'tid', None)

    def enabled(self):
        return [t for t in range(self.n) if not self.done[t] and t not in self.blocked]

    def block(self, me, lock):
        self.blocked[me] = lock
        self._switch(me)

    def unblock(self, lock):
        for t, l in list(self.blocked.items()):
            if l is lock:
                del self.blocked[t]

    def point(self, info=None):
        me = self.current()
        if me is None:
            return
        if self.abort:
            raise Abort()
        self._switch(me)

    def _choose(self, order):
        i = len(self.choices)
        if i < len(self.prefix):
            c = self.prefix[i]
            if c >= len(order):
                self.diverged = "replay divergence at point %d: choice %r of %r" % (i, c, order)
                self.abort = True
                raise Abort()
        else:
            c = 0
        self.choices.append(c)
        return order[c]

    def _switch(self, me):
        self.steps += 1
        if self.steps > self.max_steps:
            self.livelock = True
            self.abort = True
            raise Abort()
        en = self.enabled()
        if not en:
            self.deadlock = True
            self.abort = True
            raise Abort()
        if me in en:
            order = [me] + [t for t in en if t != me]
        else:
            order = en
        self.points.append((me, tuple(order), me in en))
        nxt = self._choose(order)
        if nxt != me:
            self.sems[nxt].release()
            self.sems[me].acquire()
            if self.abort:
                raise Abort()

    def _trace(self, frame, event, arg):
        tr = self.traced
        if (tr(frame) if callable(tr) else frame.f_code.co_filename in tr):
            if self.opcode:
                frame.f_trace_opcodes = True
            return self._ltrace
        return None

    def _ltrace(self, frame, event, arg):
        if event == 'line' or (self.opcode and event == 'opcode'):
            if len(self.trace_log) < 4000:
                self.trace_log.append((self.current(), frame.f_lineno))
            self.point()
        return self._ltrace

    def _release_all(self):
        for t in range(self.n):
            if not self.done[t]:
                self.sems[t].release()

    def _thread_main(self, tid):
        self.tls.tid = tid
        self.sems[tid].acquire()
        try:
            if self.abort:
                raise Abort()
            sys.settrace(self._trace)
            try:
                self.results[tid] = self.bodies[tid]()
            finally:
                sys.settrace(None)
        except Abort:
            pass
        except BaseException as e:
            self.errors[tid] = e
        self.done[tid] = True
        if self.abort:
            self._release_all()
            self.main_sem.release()
            return
        en = self.enabled()
        if not en:
            if not all(self.done):
                self.deadlock = True
                self.abort = True
                self._release_all()
            self.main_sem.release()
            return
        # thread end is a scheduling point too (never a preemption)
        self.points.append((tid, tuple(en), False))
        try:
            nxt = self._choose(en)
        except Abort:
            self._release_all()
            self.main_sem.release()
            return
        self.sems[nxt].release()

    def run(self, watchdog=60.0):
        ths = [threading.Thread(target=self._thread_main, args=(t,), daemon=True) for t in range(self.n)]
        for t in ths:
            t.start()
        order = list(range(self.n))
        self.points.append((None, tuple(order), False))
        try:
            first = self._choose(order)
        except Abort:
            self._release_all()
            for t in ths:
                t.join(5)
            return self
        self.sems[first].release()
        if not self.main_sem.acquire(timeout=watchdog):
            self.abort = True
            self._release_all()
            raise HarnessError("schedule explorer watchdog: execution did not finish in %.0fs "
                               "(a real lock the harness does not model?)" % watchdog)
        for t in ths:
            t.join(10)
            if t.is_alive():
                raise HarnessError("worker thread did not terminate")
        return self

    def preemptions_before(self, i):
        n = 0
        for j in range(i):
            me, order, running_enabled = self.points[j]
            if running_enabled and self.choices[j] != 0:
                n += 1
        return n

    def preemptions(self):
        return self.preemptions_before(len(self.points))

    def observation(self):
        """what an execution is compared on when checking replay determinism"""
        return (tuple(repr(r)[:200] for r in self.results),
                tuple(type(e).__name__ if e is not None else None for e in self.errors),
                self.deadlock, self.livelock, tuple(self.choices))


class Stats(object):
    def __init__(self):
        self.executions = 0
        self.points = 0
        self.outcomes = collections.Counter()
        self.by_preemptions = collections.Counter()
        self.failures = []          # (preemptions, choices, verdict)
        self.replays_checked = 0
        self.capped = False
        self.max_points = 0


def explore(make, traced_files, bound, check, max_exec=None, verify_every=50, opcode=False, max_steps=40000,
            roots=None, children_only=False):
    """make(lock_factory) -> (bodies, ctx): builds a fresh harness instance whose locks come from lock_factory.
    check(exec, ctx) -> ('ok',) or (kind, info...).  Returns Stats."""
    st = Stats()
    stack = [list(r) for r in roots] if roots is not None else [[]]
    st.children = []
    st.children_cost = []       # preemptions used by each child prefix (0 = a free switch: it keeps the whole budget)
    cur = {'ex': None}

    def lock_factory():
        return ModelLock(lambda: cur['ex'])

    def run_one(prefix):
        ex = Exec([], prefix, traced_files, opcode=opcode, max_steps=max_steps)
        cur['ex'] = None           # harness construction happens outside the scheduler
        bodies, ctx = make(lock_factory)
        ex.bodies = bodies
        ex.n = len(bodies)
        ex.sems = [threading.Semaphore(0) for _ in bodies]
        ex.done = [False] * ex.n
        ex.errors = [None] * ex.n
        ex.results = [None] * ex.n
        cur['ex'] = ex
        try:
            ex.run()
        finally:
            cur['ex'] = None
        if ex.diverged:
            raise HarnessError(ex.diverged)
        return ex, ctx

    while stack:
        prefix = stack.pop()
        ex, ctx = run_one(prefix)
        st.executions += 1
        st.points += len(ex.points)
        st.max_points = max(st.max_points, len(ex.points))
        verdict = check(ex, ctx)
        st.outcomes[verdict[0]] += 1
        pre = ex.preemptions()
        st.by_preemptions[pre] += 1
        failed = verdict[0] != 'ok'
        if failed or (verify_every and st.executions % verify_every == 1):
            ex2, ctx2 = run_one(list(ex.choices))
            st.replays_checked += 1
            v2 = check(ex2, ctx2)
            if ex2.choices != ex.choices or v2[0] != verdict[0] or \
                    [type(e).__name__ for e in ex2.errors if e] != [type(e).__name__ for e in ex.errors if e]:
                raise HarnessError("nondeterministic replay: %r vs %r (choices %r)" % (verdict, v2, ex.choices[:50]))
        if failed:
            st.failures.append((pre, list(ex.choices), verdict, ex.trace_log[-40:]))
        for i in range(len(prefix), len(ex.points)):
            me, order, running_enabled = ex.points[i]
            if len(order) < 2:
                continue
            cost = ex.preemptions_before(i) + (1 if running_enabled else 0)
            if cost > bound:
                continue
            for alt in range(1, len(order)):
                if children_only:
                    st.children.append(ex.choices[:i] + [alt])
                    st.children_cost.append(cost)
                else:
                    stack.append(ex.choices[:i] + [alt])
        if max_exec and st.executions >= max_exec:
            st.capped = bool(stack)
            break
    st.failures.sort(key=lambda f: (f[0], len(f[1])))
    return st


def replay(make, traced_files, choices, check, opcode=False):
    """re-execute one recorded schedule (used by --replay)"""
    st = explore(make, traced_files, -1, check, max_exec=1, verify_every=0, opcode=opcode) if False else None
    cur = {'ex': None}

    def lock_factory():
        return ModelLock(lambda: cur['ex'])
    ex = Exec([], choices, traced_files, opcode=opcode)
    bodies, ctx = make(lock_factory)
    ex.bodies = bodies
    ex.n = len(bodies)
    ex.sems = [threading.Semaphore(0) for _ in bodies]
    ex.done = [False] * ex.n
    ex.errors = [None] * ex.n
    ex.results = [None] * ex.n
    cur['ex'] = ex
    try:
        ex.run()
    finally:
        cur['ex'] = None
    if ex.diverged:
        raise HarnessError(ex.diverged)
    return ex, check(ex, ctx)


# ---------------------------------------------------------------------------
def selftest():
    from mc import toys
    files = {toys.__file__}

    def chk(ex, box):
        if ex.deadlock:
            return ('deadlock',)
        if box is not None and box['n'] != 2:
            return ('lost-update', box['n'])
        return ('ok',)
    s0 = explore(lambda lf: toys.counter(lf, False), files, 0, chk)
    assert not s0.failures, "racy counter must pass with 0 preemptions"
    s1 = explore(lambda lf: toys.counter(lf, False), files, 1, chk)
    assert s1.failures and s1.failures[0][0] == 1, "racy counter must be caught with exactly 1 preemption"
    s2 = explore(lambda lf: toys.counter(lf, True), files, 2, chk)
    assert not s2.failures and s2.executions >= 3, "locked counter must pass"
    s3 = explore(lambda lf: toys.leak(lf), files, 0, chk)
    assert s3.failures and s3.failures[0][2][0] == 'deadlock', "leaked lock must deadlock"
    return True
