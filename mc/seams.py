"""Harness-side seams: monkeypatches of module globals the library already looks up at run time.
Each seam reports whether it could bind; a seam that cannot bind degrades to a wall-clock cap
(cases are then counted as capped, never as violations)."""
import datetime as D
import types


class Budget(BaseException):
    """period budget exhausted (BaseException so library except-clauses cannot swallow it)"""


class PastHorizon(BaseException):
    """the implementation started expanding a period that begins after the horizon"""


class _DTProxy(object):
    def __init__(self, real, maxyear):
        self._real = real
        self.MAXYEAR = maxyear

    def __getattr__(self, name):
        return getattr(self._real, name)


_state = {'horizon_ord': None, 'budget': None, 'installed': False, 'bound_horizon': None, 'bound_budget': None}


def rrule_horizon(maxyear):
    """Make dateutil.rrule stop expanding periods after `maxyear` (it compares with datetime.MAXYEAR)."""
    import dateutil.rrule as RR
    real = getattr(RR, 'datetime', None)
    if isinstance(real, _DTProxy):
        real = real._real
    if not isinstance(real, types.ModuleType) or not hasattr(real, 'MAXYEAR'):
        _state['bound_horizon'] = False
        return False
    RR.datetime = _DTProxy(real, min(maxyear, D.MAXYEAR))
    _state['bound_horizon'] = True
    return True


def rrule_horizon_off():
    import dateutil.rrule as RR
    real = getattr(RR, 'datetime', None)
    if isinstance(real, _DTProxy):
        RR.datetime = real._real


def install_period_budget():
    """Counting wrappers on _iterinfo.{y,m,w,d}dayset: one call per expanded period."""
    if _state['installed']:
        return _state['bound_budget']
    import dateutil.rrule as RR
    ii = getattr(RR, '_iterinfo', None)
    names = ['ydayset', 'mdayset', 'wdayset', 'ddayset']
    if ii is None or not all(callable(getattr(ii, n, None)) for n in names):
        _state['installed'] = True
        _state['bound_budget'] = False
        return False
    for n in names:
        orig = getattr(ii, n)

        def wrapped(self, *a, __orig=orig, __kind=n[0], **kw):
            h = _state['horizon_ord']
            if h is not None and len(a) == 3:
                try:
                    o = D.date(a[0], 1 if __kind == 'y' else a[1], 1 if __kind in 'ym' else a[2]).toordinal()
                except (ValueError, TypeError):
                    o = None
                if o is not None and o > h:
                    raise PastHorizon()
            b = _state['budget']
            if b is not None:
                b -= 1
                _state['budget'] = b
                if b < 0:
                    raise Budget()
            return __orig(self, *a, **kw)
        setattr(ii, n, wrapped)
    _state['installed'] = True
    _state['bound_budget'] = True
    return True


def set_budget(n, horizon_ord=None):
    _state['budget'] = n
    _state['horizon_ord'] = horizon_ord


def bound():
    return {'horizon': _state['bound_horizon'], 'period_budget': _state['bound_budget']}
