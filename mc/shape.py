"""E1: deviation-bounded shape enumeration.

A *shape* is a dict {field: non-default value}.  All shapes with 0 deviations
are enumerated first, then 1, 2, ... k, fields in declaration order and menu
values simplest-first, so the first counterexample is the one with the fewest
non-default parts.
"""
import itertools
import math


def shapes(menus, k, kmin=0):
    names = list(menus)
    for d in range(kmin, k + 1):
        for combo in itertools.combinations(names, d):
            for vals in itertools.product(*[menus[n] for n in combo]):
                yield dict(zip(combo, vals))


def space_size(menus, k, kmin=0):
    names = list(menus)
    total = 0
    for d in range(kmin, k + 1):
        for combo in itertools.combinations(names, d):
            total += math.prod(len(menus[n]) for n in combo)
    return total
