"""E2: explicit-state breadth-first search over operation histories on real objects.

A state is the history that reaches it: live generators and weak dictionaries
cannot be copied, so `fresh()` builds a new object and the history is replayed.
Every transition calls the real method; `check` compares its answer with the
reference model; `canon` maps the reached object to a hashable canonical form for
de-duplication (soundness of each canon is argued in the property module).
"""
import collections


class Result(object):
    def __init__(self):
        self.states = 0
        self.transitions = 0
        self.max_depth = 0
        self.violations = []          # (history, detail)
        self.returns = collections.defaultdict(set)   # op kind -> distinct observed answers (vacuity indicator)
        self.depth_hist = collections.Counter()
        self.truncated = False


def bfs(fresh, ops_for, step, check, canon, max_depth, max_states=200000, kind_of=lambda op: op[0],
        max_viol=20):
    """
    fresh() -> state object (with reference model inside, if any)
    ops_for(state, history) -> iterable of operations enabled in that state
    step(state, op) -> observed answer (exceptions must be turned into values by step)
    check(state, history, op, answer) -> list of violation dicts (empty if fine)
    canon(state) -> hashable
    """
    res = Result()

    def build(hist):
        st = fresh()
        for op in hist:
            step(st, op)
        return st

    st0 = fresh()
    seen = {canon(st0)}
    frontier = collections.deque([()])
    res.states = 1
    while frontier:
        hist = frontier.popleft()
        if len(hist) >= max_depth:
            continue
        st = build(hist)
        ops = list(ops_for(st, hist))
        for op in ops:
            s2 = build(hist)
            ans = step(s2, op)
            res.transitions += 1
            try:
                res.returns[kind_of(op)].add(repr(ans)[:80])
            except Exception:
                pass
            vs = check(s2, hist, op, ans)
            for v in vs:
                if len(res.violations) < max_viol:
                    res.violations.append((hist + (op,), v))
            k = canon(s2)
            if k not in seen:
                seen.add(k)
                res.states += 1
                res.depth_hist[len(hist) + 1] += 1
                res.max_depth = max(res.max_depth, len(hist) + 1)
                if res.states >= max_states:
                    res.truncated = True
                    return res
                frontier.append(hist + (op,))
    return res


def selftest():
    """off-by-one sequence model: a counter whose 'get' is wrong after 3 increments must be caught at depth 4"""
    class Buggy(object):
        def __init__(self):
            self.n = 0
            self.model = 0

    def fresh():
        return Buggy()

    def ops_for(st, hist):
        return [('inc',), ('get',)]

    def step(st, op):
        if op[0] == 'inc':
            st.n += 1
            st.model += 1
            return None
        return st.n if st.n != 3 else 2     # the seeded defect

    def check(st, hist, op, ans):
        if op[0] == 'get' and ans != st.model:
            return [{'kind': 'wrong', 'got': ans, 'expected': st.model}]
        return []

    r = bfs(fresh, ops_for, step, check, lambda st: st.n, max_depth=5)
    assert r.violations and r.violations[0][0] == (('inc',), ('inc',), ('inc',), ('get',)), r.violations[:1]
    assert r.states == 6, r.states
    return True
