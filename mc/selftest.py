"""Engine self-tests run by setup.sh."""
import sys


def main():
    from mc import core
    core.assert_repo()
    from refs import easter_ref
    easter_ref.selftest()
    try:
        from mc import schedule
        schedule.selftest()
    except ImportError:
        pass
    try:
        from mc import history
        history.selftest()
    except ImportError:
        pass
    print("selftest ok")
    return 0


if __name__ == '__main__':
    sys.exit(main())
