"""Zone cases for C04 / C05: every kind of tzinfo the library can produce, each with an independent timeline.

A case is a tuple:
  ('file', name) | ('synthetic', shape)            -> tzfile, timeline from refs/tzif_ref
  ('posix', shape-dict-items, zone_class)          -> tzstr | tzrange | tzical | tzlocal, timeline from refs/posix_tz_ref
  ('fixed', class, name, seconds)                  -> tzutc / tzoffset, constant timeline
"""
import contextlib
import datetime as D
import io

from props import tzwalk, posixmenu as pm
from refs import tzif_ref

EPOCH = tzif_ref.EPOCH


class Timeline(object):
    """offset(u) for UTC second u, the transition instants, and the range where the reference is defined"""

    def __init__(self, at, transitions, offsets, lo=None, hi=None, label=''):
        self.at = at                      # u -> (utoff, isdst, abbr)
        self.transitions = transitions    # sorted UTC seconds
        self.offsets = sorted(set(offsets))
        self.lo, self.hi = lo, hi         # reference defined for lo <= u < hi (None = unbounded)
        self.label = label

    def crowded(self):
        """some transitions are closer together than the offset change between them (no real zone is)"""
        ts = self.transitions
        for a, b in zip(ts, ts[1:]):
            if not (self.defined(a - 1) and self.defined(b)):
                continue
            jump = max(abs(self.at(a)[0] - self.at(a - 1)[0]), abs(self.at(b)[0] - self.at(b - 1)[0]))
            if b - a < jump:
                return True
        return False

    def defined(self, u):
        return (self.lo is None or u >= self.lo) and (self.hi is None or u < self.hi)

    def preimages(self, w):
        """UTC seconds u with u + utoff(u) == w; None if one of the candidates lies where the reference is silent"""
        res = []
        for o in self.offsets:
            u = w - o
            if not self.defined(u):
                return None
            if self.at(u)[0] == o:
                res.append(u)
        return sorted(res)


def secs(dt):
    return int((dt - EPOCH).total_seconds())


def posix_cases(k, classes=('tzstr', 'tzrange', 'tzical', 'tzlocal')):
    out = []
    for sh in pm.shapes(k):
        p = pm.make_spec(sh)
        if not pm.ordinary(p):
            continue                       # transition times outside the day are C08's business (known finding there)
        for zc in classes:
            if zc == 'tzical' and not (p.srule[0] == 'M' and p.erule[0] == 'M' and
                                       (p.stime or 0) < 86400 and (p.etime or 0) < 86400):
                continue                   # a yearly BYDAY rule cannot state an onset at 24:00 or later
            out.append(('posix', tuple(sorted(sh.items())), zc))
    return out


FIXED = [('fixed', 'tzutc', None, 0), ('fixed', 'UTC', None, 0), ('fixed', 'tzoffset', 'A', 0), ('fixed', 'tzoffset', 'B', 1),
         ('fixed', 'tzoffset', 'C', -1), ('fixed', 'tzoffset', 'D', 59), ('fixed', 'tzoffset', None, -59),
         ('fixed', 'tzoffset', 'E', 3600), ('fixed', 'tzoffset', 'F', -3600), ('fixed', 'tzoffset', 'G', 86399),
         ('fixed', 'tzoffset', 'H', -86399), ('fixed', 'tzoffset', 'I', 19800), ('fixed', 'tzoffset-td', 'J', -12600),
         ('fixed', 'tzstr-fixed', 'EST5', -18000), ('fixed', 'tzrange-fixed', 'XST', 7200)]


class RefZone(D.tzinfo):
    """A PEP 495 tzinfo written by hand from a Timeline -- the kind of class (like zoneinfo.ZoneInfo) that has no
    is_ambiguous() of its own, so that the library's generic classification code is what answers for it.
    flat_dst: dst() is zero everywhere (a zone that moves its standard offset, as Moscow did in 2014)."""

    def __init__(self, tl, flat_dst=False):
        self.tl = tl
        self.flat = flat_dst

    def _u(self, dt):
        tl = self.tl
        w = secs(dt.replace(tzinfo=None))
        pre = sorted(w - o for o in tl.offsets if tl.at(w - o)[0] == o)
        if pre:
            return pre[-1] if dt.fold else pre[0]
        # a gap: fold=0 reads it with the offset in force before the transition, fold=1 with the one after it
        for t in tl.transitions:
            a, b = tl.at(t - 1)[0], tl.at(t)[0]
            if t + min(a, b) <= w < t + max(a, b):
                return w - (b if dt.fold else a)
        return w - tl.at(w - tl.offsets[0])[0]

    def utcoffset(self, dt):
        return D.timedelta(seconds=self.tl.at(self._u(dt))[0])

    def dst(self, dt):
        if self.flat:
            return D.timedelta(0)
        return D.timedelta(hours=1) if self.tl.at(self._u(dt))[1] else D.timedelta(0)

    def tzname(self, dt):
        return self.tl.at(self._u(dt))[2]

    def fromutc(self, dt):
        tl = self.tl
        u = secs(dt.replace(tzinfo=None))
        o = tl.at(u)[0]
        w = u + o
        pre = sorted(w - x for x in tl.offsets if tl.at(w - x)[0] == x)
        return (dt + D.timedelta(seconds=o)).replace(fold=1 if len(pre) >= 2 and u == pre[-1] else 0)

    def __repr__(self):
        return 'RefZone(%s%s)' % (self.tl.label, ', flat dst' if self.flat else '')


FOREIGN_FILES = ['Europe/Moscow', 'America/Caracas', 'Asia/Pyongyang', 'Europe/Dublin', 'Australia/Lord_Howe', 'America/New_York',
                 'Africa/Casablanca', 'Pacific/Apia', 'Asia/Kolkata', 'Antarctica/Troll', 'America/St_Johns', 'Europe/Lisbon']


def foreign_cases(k, thorough=False):
    """hand-written PEP 495 classes over the same timelines: every rule zone with <= k deviations (honest and flat dst),
    a fixed list of files (thorough: every file) and every synthetic shape"""
    out = []
    for c in posix_cases(k, classes=('tzstr',)):
        out.append(('foreign', c, False))
        out.append(('foreign', c, True))
    names = set(n for n, _ in tzif_ref.corpus())
    for c in tzwalk.zone_cases():
        if c[0] == 'synthetic' or thorough or c[1] in FOREIGN_FILES:
            if c[0] == 'file' and c[1] not in names:
                continue
            out.append(('foreign', c, c[0] == 'synthetic'))
    return out


@contextlib.contextmanager
def open_case(case):
    """yields (zone object, Timeline)"""
    from dateutil import tz
    kind = case[0]
    if kind == 'foreign':
        inner = tuple(case[1])
        if inner[0] == 'posix':
            inner = ('posix', tuple(tuple(x) for x in inner[1]), inner[2])
        with open_case(inner) as (_, tl):
            tl.label = 'foreign:' + tl.label
            yield RefZone(tl, bool(case[2])), tl
        return
    if kind in ('file', 'synthetic'):
        zone, data, label = tzwalk.load(case)
        z = tzwalk.impl_zone(case, data)
        lo = None
        hi = zone.times[-1] if zone.times else None
        tl = Timeline(zone.at, list(zone.times), [t[0] for t in zone.seq], lo, hi, label)
        tl.ref = zone
        yield z, tl
        return
    if kind == 'fixed':
        _, cls, name, off = case
        if cls == 'tzutc':
            z = tz.tzutc()
            abbr = 'UTC'
        elif cls == 'UTC':
            z = tz.UTC
            abbr = 'UTC'
        elif cls == 'tzoffset':
            z = tz.tzoffset(name, off)
            abbr = name
        elif cls == 'tzoffset-td':
            z = tz.tzoffset(name, D.timedelta(seconds=off))
            abbr = name
        elif cls == 'tzstr-fixed':
            z = tz.tzstr(name)
            abbr = 'EST'
        else:
            z = tz.tzrange(name, off)
            abbr = name
        tl = Timeline(lambda u: (off, 0, abbr), [secs(D.datetime(2024, 3, 10, 7)), 0, secs(D.datetime(2000, 1, 1))],
                      [off], None, None, '%s(%r,%r)' % (cls, name, off))
        yield z, tl
        return
    _, items, zc = case
    p = pm.make_spec(dict(items))
    s = pm.spec_string(p)
    trans = [secs(t) for t in p.transitions(pm.YEARS)]

    def at(u):
        o, a, d = p.at(EPOCH + D.timedelta(seconds=u))
        return (o, int(d), a)
    lo, hi = secs(D.datetime(pm.YEARS[0], 2, 1)), secs(D.datetime(pm.YEARS[-1], 12, 1))
    tl = Timeline(at, trans, [p.stdoff, p.dstoff], lo, hi, '%s:%s' % (zc, s))
    tl.spec = p
    if zc == 'tzstr':
        yield tz.tzstr(s), tl
    elif zc == 'tzrange':
        yield pm.tzrange_for(p), tl
    elif zc == 'tzical':
        yield tz.tzical(io.StringIO(pm.vtimezone(p))).get(), tl
    elif zc == 'tzlocal':
        with pm.tz_env(s):
            yield tz.tzlocal(), tl
    else:
        raise ValueError(zc)


def utc_aware(u):
    from dateutil import tz
    return (EPOCH + D.timedelta(seconds=u)).replace(tzinfo=tz.UTC)
