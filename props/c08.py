"""C08 -- tzstr, tzrange and tzlocal implement POSIX TZ rule semantics.

E1: every POSIX rule spec with <= k deviations from EST5EDT,M3.2.0,M11.1.0 (offsets
incl. half-hour and two-hour savings, M/J/n rule forms, times incl. 0, 0:30, 24, 26,
either hemisphere, explicit/default daylight offset) x zone classes {tzstr, gettz,
tzrange, tzlocal under TZ} x every transition neighbourhood of 3 years, against the
independent evaluator refs/posix_tz_ref.py, itself compared with glibc on the same
probes.
"""
import datetime as D
import time
import warnings

from mc import shape
from mc.core import Res
from props import posixmenu as pm
from refs import posix_tz_ref as pref

QUICK_D = [-3601, -1, 0, 1, 1799, 3599, 3600, 7200, 86400]
_CFG = {'thorough': False}


def worker_setup(arg):
    _CFG['thorough'] = bool(arg)


def deltas():
    if not _CFG['thorough']:
        return QUICK_D
    ds = set()
    for d in QUICK_D:
        for e in range(-3, 4):
            ds.add(d + e)
    for m in range(-144, 145):
        ds.add(m * 600)
    return sorted(ds)


def answer(z, u_naive):
    from dateutil import tz
    loc = u_naive.replace(tzinfo=tz.UTC).astimezone(z)
    d = loc.dst()
    off = loc.utcoffset()
    if off is None:
        return ('naive-result', str(loc), None)
    if loc.replace(tzinfo=None) - u_naive != off:
        # the reported offset must also be the one the wall clock was computed with
        return ('wall-clock-inconsistent', str(loc.replace(tzinfo=None)), off.total_seconds())
    return (off.total_seconds(), loc.tzname(), bool(d))


def locate(z, t):
    """where (in whole weeks around the expected instant t) the zone actually changes its offset"""
    for k in (0, -1, 1, -2, 2):
        a = t + D.timedelta(days=7 * k)
        try:
            if answer(z, a - D.timedelta(seconds=1))[0] != answer(z, a)[0]:
                return 7 * k
        except Exception:
            return 'error'
    return 'elsewhere'


def quirk_fields(rule, seconds):
    kw = {'seconds': seconds}
    if rule[0] == 'M':
        _, m, w, d = rule
        kw.update(month=m, day=31 if w == 5 else 1, weekday=((d - 1) % 7, -1 if w == 5 else w))
    elif rule[0] == 'J':
        kw['nlyearday'] = rule[1]
    else:
        kw['yearday'] = rule[1] + 1
    return kw


def quirk_at(p, u):
    """the documented deviation: each rule is ONE relativedelta added to 1 January, so the time of day is
    added before the weekday rule is applied (refs/reldelta_ref.add is the independent relativedelta model)"""
    from refs import reldelta_ref
    base = D.datetime(u.year, 1, 1)
    on = reldelta_ref.add(base, quirk_fields(p.srule, pm.std_tod(p, 'start'))) - D.timedelta(seconds=p.stdoff)
    off = reldelta_ref.add(base, quirk_fields(p.erule, pm.std_tod(p, 'end'))) - D.timedelta(seconds=p.stdoff)
    if on < off:
        isdst = on <= u < off
    else:
        isdst = not (off <= u < on)
    return (p.dstoff, p.dst, True) if isdst else (p.stdoff, p.std, False)


def classify(p, which):
    tod = pm.std_tod(p, which)
    return '<0' if tod < 0 else ('>=24h' if tod >= 86400 else 'ordinary')


def eval_spec(sh):
    from dateutil import tz
    warnings.simplefilter('ignore')
    p = pm.make_spec(sh)
    s = pm.spec_string(p)
    viols = []
    zones = {}
    try:
        zones['tzstr'] = tz.tzstr(s)
    except Exception as e:
        return Res(viols=[{'kind': 'valid-string-rejected', 'string': s, 'zone_class': 'tzstr', 'error': repr(e)[:100]}])
    try:
        g = tz.gettz(s)
        if g is None:
            viols.append({'kind': 'valid-string-rejected', 'string': s, 'zone_class': 'gettz'})
        else:
            zones['gettz'] = g
    except Exception as e:
        viols.append({'kind': 'valid-string-rejected', 'string': s, 'zone_class': 'gettz', 'error': repr(e)[:100]})
    if pm.ordinary(p):
        zones['tzrange'] = pm.tzrange_for(p)
    ds = deltas()
    n = 0
    xcheck = 0
    seen = set()
    with pm.tz_env(s):
        zones['tzlocal'] = tz.tzlocal()
        for year in pm.YEARS:
            tr = p.trans_utc(year)
            for which, t in zip(('start', 'end'), tr):
                bad_here = {}
                got_all = {}
                for dl in ds:
                    u = t + D.timedelta(seconds=dl)
                    exp = p.at(u)
                    # second opinion on the reference: glibc for the same string and instant
                    lt = time.localtime(int((u - pref.EPOCH).total_seconds()))
                    if (lt.tm_gmtoff, lt.tm_zone, bool(lt.tm_isdst)) != exp:
                        xcheck += 1
                    for zc, z in zones.items():
                        n += 1
                        try:
                            got = answer(z, u)
                        except Exception as e:
                            got = ('exception', type(e).__name__, str(e)[:60])
                        got_all.setdefault(zc, []).append((u, got))
                        if got != exp and zc not in bad_here:
                            bad_here[zc] = (u, got, exp)
                for zc, (u, got, exp) in bad_here.items():
                    form = (p.srule if which == 'start' else p.erule)[0]
                    key = (zc, which, form)
                    if key in seen:
                        continue
                    seen.add(key)
                    explained = all(g == quirk_at(p, uu) for uu, g in got_all[zc])
                    viols.append({'kind': 'rule-zone-disagrees', 'string': s, 'zone_class': zc, 'transition': which,
                                  'year': year, 'utc': u, 'got': got, 'expected': exp, 'form': form,
                                  'std_tod': classify(p, which),
                                  'explained_by': 'time-of-day-added-before-weekday-rule' if explained else 'unexplained',
                                  'displaced_days': locate(zones[zc], t)})
    if 'tzrange' in zones and zones['tzrange'] != zones['tzstr'] and False:
        pass
    return Res(trans=n, viols=viols[:6], extra={'reference_vs_glibc_mismatch': xcheck, 'zones': len(zones)},
               sample={'string': s, 'zones': sorted(zones), 'transitions_2024': [str(x) for x in p.trans_utc(2024)]}
               if len(sh) == 2 and 'stime' in sh and 'south' in sh else None)


# ---- fixed offsets, GMT+h sign, malformed strings
FIXED = [('EST5', -18000, 'EST'), ('AAA-10', 36000, 'AAA'), ('IST-5:30', 19800, 'IST'), ('NST3:30', -12600, 'NST'),
         ('XYZ0', 0, 'XYZ'), ('ABC-0', 0, 'ABC'), ('FOO+3', -10800, 'FOO'), ('BAR-03', 10800, 'BAR'),
         ('LONGNAME-1', 3600, 'LONGNAME')]
GMTLIKE = [('GMT+3', 10800, -10800), ('UTC+3', 10800, -10800), ('GMT-3', -10800, 10800), ('UTC-11', -39600, 39600),
           ('GMT+0', 0, 0), ('UTC+5:30', 19800, -19800)]
MALFORMED = ['EST5EDT,', 'EST5EDT,M3.2.0', 'EST5EDT,M3.2.0,M11.1.0,M1.1.1', 'EST5EDT,M3.2.0,M11.1.0/2/3',
             'EST5EDT,X3.2.0,M11.1.0', 'EST5EDT;M3.2.0;M11.1.0$', 'EST5EDT,M3.2,M11.1.0', 'EST5EDT,M3,M11',
             '5', 'EST5EDT4FOO3', 'EST5EDT,M3.2.0/abc,M11.1.0', 'EST 5', 'EST5EDT,,', 'EST5EDT,M3.2.0,M11.1.0 extra',
             'EST5EDT,J,J', 'EST12345', '@#$', 'EST5EDT,M3.2.0,M11.1.0,', 'EST5:EDT',
             'EST5EDT,M3.2.0/2:00:00:00,M11.1.0', 'EST5:00:00:00EDT,M3.2.0,M11.1.0', 'EST5EDT,M3.2.0/2:,M11.1.0']


def eval_fixed(case):
    from dateutil import tz
    warnings.simplefilter('ignore')
    kind = case[0]
    viols = []
    n = 0
    probes = [D.datetime(2024, 1, 15, 12), D.datetime(2024, 7, 15, 12), D.datetime(1999, 12, 31, 23, 59, 59)]
    if kind == 'fixed':
        _, s, off, name = case
        for zc, mk in (('tzstr', lambda: tz.tzstr(s)), ('gettz', lambda: tz.gettz(s))):
            try:
                z = mk()
                for u in probes:
                    n += 1
                    got = answer(z, u)
                    if got != (off, name, False):
                        viols.append({'kind': 'fixed-offset-string-wrong', 'string': s, 'zone_class': zc, 'got': got,
                                      'expected': (off, name, False)})
                        break
            except Exception as e:
                viols.append({'kind': 'valid-string-rejected', 'string': s, 'zone_class': zc, 'error': repr(e)[:100]})
        with pm.tz_env(s):
            z = tz.tzlocal()
            for u in probes:
                n += 1
                got = answer(z, u)
                if got != (off, name, False):
                    viols.append({'kind': 'fixed-offset-string-wrong', 'string': s, 'zone_class': 'tzlocal', 'got': got,
                                  'expected': (off, name, False)})
                    break
    elif kind == 'gmt':
        _, s, ahead, posix = case
        for flag, exp in ((False, ahead), (True, posix)):
            try:
                z = tz.tzstr(s, posix_offset=flag)
                n += 1
                got = answer(z, probes[0])[0]
                if got != exp:
                    viols.append({'kind': 'gmt-plus-h-sign', 'string': s, 'posix_offset': flag, 'got': got, 'expected': exp})
            except Exception as e:
                viols.append({'kind': 'valid-string-rejected', 'string': s, 'zone_class': 'tzstr', 'error': repr(e)[:100]})
    elif kind == 'tzrange-spellings':
        # the offsets of a tzrange may be given as seconds or as timedeltas, in any mixture
        _, sh = case
        p = pm.make_spec(dict(sh))
        ref_zone = pm.tzrange_for(p)
        td = D.timedelta
        for a, b in ((p.stdoff, td(seconds=p.dstoff)), (td(seconds=p.stdoff), p.dstoff), (td(seconds=p.stdoff), td(seconds=p.dstoff))):
            n += 1
            try:
                z = tz.tzrange(p.std, a, p.dst, b, pm.rule_delta(p.srule, pm.std_tod(p, 'start')), pm.rule_delta(p.erule, pm.std_tod(p, 'end')))
                got = [answer(z, u) for u in probes]
            except Exception as e:
                viols.append({'kind': 'valid-string-rejected', 'string': pm.spec_string(p), 'zone_class': 'tzrange', 'error': repr(e)[:100],
                              'offset_spellings': [type(a).__name__, type(b).__name__]})
                continue
            if got != [answer(ref_zone, u) for u in probes]:
                viols.append({'kind': 'rule-zone-disagrees', 'string': pm.spec_string(p), 'zone_class': 'tzrange',
                              'offset_spellings': [type(a).__name__, type(b).__name__], 'got': got[:2]})
    elif kind == 'name-only':
        # A name without an offset: the statement leaves open whether that is a fixed-offset zone or a malformed
        # string, but not that some other exception escapes or that the result has daylight time.
        _, s = case
        for flag in (False, True):
            n += 1
            try:
                z = tz.tzstr(s, posix_offset=flag)
            except ValueError:
                continue
            except Exception as e:
                viols.append({'kind': 'malformed-wrong-exception', 'string': s, 'posix_offset': flag, 'error': repr(e)[:100]})
                continue
            got = [answer(z, u) for u in probes]
            if len(set(g[0] for g in got)) != 1 or any(g[2] for g in got):
                viols.append({'kind': 'fixed-offset-string-wrong', 'string': s, 'zone_class': 'tzstr', 'got': got[0], 'expected': 'one offset, no dst'})
            elif s in ('UTC', 'GMT') and got[0][0] != 0:
                viols.append({'kind': 'fixed-offset-string-wrong', 'string': s, 'zone_class': 'tzstr', 'got': got[0], 'expected': (0, s, False)})
    else:
        _, s = case
        n += 1
        try:
            z = tz.tzstr(s)
        except ValueError:
            return Res(outcome='rejected', trans=1)
        except Exception as e:
            return Res(viols=[{'kind': 'malformed-wrong-exception', 'string': s, 'error': repr(e)[:100]}])
        viols.append({'kind': 'malformed-accepted', 'string': s, 'result': repr(z)})
    return Res(trans=n, viols=viols[:3])


def signature(case, detail):
    keys = ('kind', 'zone_class', 'form', 'std_tod', 'explained_by')
    sig = {k: detail.get(k) for k in keys if k in detail}
    if detail.get('kind') in ('malformed-accepted', 'malformed-wrong-exception'):
        sig['string'] = detail.get('string')
    return sig


def replay(part, case):
    if part.startswith('specs'):
        _CFG['thorough'] = part.endswith('thorough')
        return eval_spec(case).viols
    return eval_fixed(tuple(case)).viols


def run(ctx):
    pref.selftest()
    k = ctx.pick(3, 4)
    shs = pm.shapes(k)
    ctx.explore('specs-' + ctx.tier, shs, 'eval_spec', chunk=8, setup_arg=ctx.thorough,
                space_size=shape.space_size(pm.MENUS, k))
    # every proper prefix of a few valid strings that stops right after a separator (nothing can follow a separator
    # but the field it announces, so each of them lacks a field)
    cut = []
    for valid in ('EST5EDT,M3.2.0/2,M11.1.0/2', 'CET-1CEST,M3.5.0,M10.5.0/3', 'AAA+3BBB-2:30,J60/1:30,300/23', 'NST3:30NDT2:30,M3.2.0/0:01,M11.1.0/0:01'):
        for i in range(1, len(valid)):
            if valid[i - 1] in ',/.:+-' and valid[:i] not in cut:
                cut.append(valid[:i])
    fixed = [('fixed',) + f for f in FIXED] + [('gmt',) + g for g in GMTLIKE] + [('malformed', m) for m in MALFORMED + cut] + \
            [('name-only', nm) for nm in ('UTC', 'GMT', 'EST', 'Z', 'utc', 'UT')] + \
            [('tzrange-spellings', tuple(sorted(sh.items()))) for sh in ({}, {'offsets': (19800, 1800)}, {'south': True})]
    ctx.explore('fixed-gmt-malformed', fixed, 'eval_fixed', serial=True)
    ctx.coverage_extra.update({
        'reference_crosscheck': ctx.counts['reference_vs_glibc_mismatch'],
        'bounds': {'deviation_bound_k': k, 'years': list(pm.YEARS), 'deltas': len(deltas()) if not ctx.thorough else 'every second +-3 s of 9 offsets, every 10 min +-1 day'},
        'rule': 'all rule specs with <= k deviations from the base spec x zone classes x both transitions of 3 years x probe offsets; '
                'reference_crosscheck = reference vs glibc mismatches on the same probes (must be 0)',
        'menus': {k_: [str(x) for x in v] for k_, v in pm.MENUS.items()},
    })
    ctx.assumptions += ['refs/posix_tz_ref.py is the oracle; glibc (TZ + tzset + localtime) is its second opinion on every probe',
                        'process zone seam: os.environ["TZ"] + time.tzset(), restored after each case']
