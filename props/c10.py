"""C10 -- rruleset is the ordered set (rrules U rdates) minus (exrules U exdates), under mutation.

E2: BFS over histories that interleave member additions (rule or date, inclusion
or exclusion role; the same rule object may be added in several roles; one member
is a cached rule) with partial iterations and queries, cache on/off.

Canonical state: (sorted multiset of members per role, cache length, cache-complete
flag, known length).  Sound because every observable of a set is a function of its
members and of what the memo holds; the memo's content is compared with the
reference in every state, so merging on its length cannot hide a stale memo.
"""
import datetime as D
import itertools
import warnings

from mc import history
from mc.core import Res, Capped, with_alarm

D0 = D.datetime(1997, 9, 2, 9, 0, 0)
DAY = D.timedelta(days=1)
SEC = D.timedelta(seconds=1)

RULES = ['daily6', 'alt4', 'weekly3', 'daily12c', 'hourly']
DATES = ['d_occ', 'd_off', 'd_before', 'd_after', 'd_occ2', 'd_dup', 'd_us']


def make_rule(name):
    from dateutil.rrule import rrule, DAILY, WEEKLY, HOURLY
    if name == 'daily6':
        return rrule(DAILY, dtstart=D0, count=6)
    if name == 'alt4':
        return rrule(DAILY, dtstart=D0, interval=2, count=4)
    if name == 'weekly3':
        return rrule(WEEKLY, dtstart=D0 + DAY, count=3)
    if name == 'daily12c':
        return rrule(DAILY, dtstart=D0 - DAY, count=12, cache=True)     # cached member, longer than a fill batch
    if name == 'hourly':
        return rrule(HOURLY, dtstart=D0 + 2 * DAY, interval=12, count=5)
    raise ValueError(name)


def make_date(name):
    return {'d_occ': D0 + 2 * DAY, 'd_off': D0 + 2 * DAY + SEC, 'd_before': D0 - 30 * DAY,
            'd_after': D0 + 60 * DAY, 'd_occ2': D0 + 8 * DAY, 'd_dup': D0 + 2 * DAY,
            'd_us': D0 + 2 * DAY + D.timedelta(microseconds=500000)}[name]      # a listed instant need not be a whole second


_LISTS = {}


def rule_list(name):
    if name not in _LISTS:
        _LISTS[name] = list(make_rule(name))
    return _LISTS[name]


class SState(object):
    def __init__(self, cache):
        from dateutil.rrule import rruleset
        self.set = rruleset(cache=cache)
        self.rules = {}
        self.members = {'rrule': [], 'rdate': [], 'exrule': [], 'exdate': []}
        self.live = None            # one iterator kept alive across later operations: [iterator, items taken, mutated since?, finished]

    def rule(self, name):
        if name not in self.rules:
            self.rules[name] = make_rule(name)       # one object per name: re-adding it shares the instance
        return self.rules[name]

    def expected(self):
        inc = set()
        for n in self.members['rrule']:
            inc.update(rule_list(n))
        inc.update(make_date(n) for n in self.members['rdate'])
        exc = set()
        for n in self.members['exrule']:
            exc.update(rule_list(n))
        exc.update(make_date(n) for n in self.members['exdate'])
        return sorted(inc - exc)


PROBES = [D0 + 2 * DAY, D0 + 2 * DAY + SEC, D0 - 100 * DAY]


def ops_menu(rules, dates, thorough):
    ops = []
    for r in rules:
        ops.append(('rrule', r))
        ops.append(('exrule', r))
    for d in dates:
        ops.append(('rdate', d))
        ops.append(('exdate', d))
    ops += [('take', 1), ('take', 3), ('take', 11), ('list',), ('count',)]
    # a live iterator that straddles later mutations: what IT yields afterwards is not specified, but finishing it
    # must not disturb any later iteration or query
    ops += [('live-start', 1), ('live-drain',)]
    for t in PROBES[:3 if thorough else 2]:
        ops += [('after', t), ('before', t), ('between', t)]
    ops += [('index', 0), ('index', -1), ('contains', PROBES[0])]
    return ops


def step(st, op):
    s = st.set
    k = op[0]
    try:
        if k in ('rrule', 'exrule'):
            getattr(s, k)(st.rule(op[1]))
            st.members[k].append(op[1])
            if st.live is not None:
                st.live[2] = True
            return ('ok', None)
        if k in ('rdate', 'exdate'):
            getattr(s, k)(make_date(op[1]))
            st.members[k].append(op[1])
            if st.live is not None:
                st.live[2] = True
            return ('ok', None)
        if k == 'live-start':
            it = iter(s)
            got = list(itertools.islice(it, op[1]))
            st.live = [it, len(got), False, False]
            return ('live', got)
        if k == 'live-drain':
            if st.live is None or st.live[3]:
                return ('live', None)
            try:
                rest = list(st.live[0])
            except Exception as e:
                rest = 'EXC:' + type(e).__name__
            st.live[3] = True
            return ('live', rest)
        if k == 'take':
            return ('ok', list(itertools.islice(iter(s), op[1])))
        if k == 'list':
            return ('ok', list(s))
        if k == 'count':
            return ('ok', s.count())
        if k == 'after':
            return ('ok', s.after(op[1], inc=True))
        if k == 'before':
            return ('ok', s.before(op[1]))
        if k == 'between':
            return ('ok', s.between(op[1], op[1] + 7 * DAY, inc=True))
        if k == 'index':
            try:
                return ('ok', s[op[1]])
            except IndexError:
                return ('IndexError',)
        if k == 'contains':
            return ('ok', op[1] in s)
    except Exception as e:
        return ('exc', type(e).__name__ + ':' + str(e)[:60])
    raise ValueError(op)


def model(E, op):
    k = op[0]
    if k in ('rrule', 'exrule', 'rdate', 'exdate'):
        return ('ok', None)
    if k in ('live-start', 'live-drain'):
        return None               # judged in check(): only when no mutation happened in between
    if k == 'take':
        return ('ok', E[:op[1]])
    if k == 'list':
        return ('ok', list(E))
    if k == 'count':
        return ('ok', len(E))
    if k == 'after':
        for x in E:
            if x >= op[1]:
                return ('ok', x)
        return ('ok', None)
    if k == 'before':
        r = None
        for x in E:
            if x < op[1]:
                r = x
        return ('ok', r)
    if k == 'between':
        return ('ok', [x for x in E if op[1] <= x <= op[1] + 7 * DAY])
    if k == 'index':
        try:
            return ('ok', E[op[1]])
        except IndexError:
            return ('IndexError',)
    if k == 'contains':
        return ('ok', op[1] in E)
    raise ValueError(op)


def eval_root(case):
    cache, first_ops, depth, pool = case
    warnings.simplefilter('ignore')
    rules, dates = pool
    thorough = depth > 4
    if depth == 6:
        depth = 6
    menu = ops_menu(rules, dates, thorough)

    def fresh():
        st = SState(cache)
        for op in first_ops:
            with_alarm(20.0, step, st, op)
        return st

    def ops_for(st, hist):
        out = []
        for op in menu:
            if op[0] in ('rrule', 'exrule', 'rdate', 'exdate'):
                # each member at most twice over all roles
                n = sum(m.count(op[1]) for m in st.members.values())
                if n >= 2:
                    continue
            if op[0] == 'live-start' and st.live is not None:
                continue
            if op[0] == 'live-drain' and (st.live is None or st.live[3]):
                continue
            out.append(op)
        return out

    def do_step(st, op):
        return with_alarm(20.0, step, st, op)

    def check(st, hist, op, ans):
        E = st.expected()
        exp = model(E, op)
        out = []
        if exp is None:
            if op[0] == 'live-start':
                exp = ('live', E[:op[1]])
            elif st.live is not None and ans[1] is not None and not st.live[2]:
                exp = ('live', E[st.live[1]:])         # never mutated since it started: it must see the rest
            else:
                exp = ans                               # a straddling iterator's own output is not specified
        if ans != exp:
            out.append({'kind': 'set-disagrees', 'op': op, 'got': ans, 'expected': exp,
                        'members': {k: list(v) for k, v in st.members.items()}, 'cache': cache})
        if op[0] in ('list', 'take') and ans[0] == 'ok':
            L = ans[1]
            if any(not (a < b) for a, b in zip(L, L[1:])):
                out.append({'kind': 'not-strictly-increasing', 'op': op, 'got': L})
        if not cache and op[0] in ('rrule', 'exrule', 'rdate', 'exdate'):
            # an uncached set has no memo: listing it after every mutation is free of side effects, so every
            # member combination reached at the depth bound is listed as well (one more level of observation)
            try:
                full = with_alarm(20.0, list, st.set)
            except Exception as e:
                full = 'EXC:' + type(e).__name__
            if full != E:
                out.append({'kind': 'set-disagrees', 'op': ('list-after',) + tuple(op), 'got': full if isinstance(full, str) else full[:6],
                            'expected': E[:6], 'members': {k: list(v) for k, v in st.members.items()}, 'cache': cache})
        c = getattr(st.set, '_cache', None)
        if not out and cache and c is not None and list(c) != E[:len(c)]:
            # A memo that is not a prefix of the expected listing is internal state: it only triggers one more
            # *observable* question on a rebuilt object (the full listing), and only a wrong answer to that is reported.
            st3 = fresh()
            for o in tuple(hist) + (op,):
                do_step(st3, o)
            seen = do_step(st3, ('list',))
            E3 = st3.expected()
            if seen != ('ok', E3):
                out.append({'kind': 'set-disagrees', 'op': ('list-after',) + tuple(op), 'got': seen, 'expected': ('ok', E3[:6]),
                            'members': {k: list(v) for k, v in st.members.items()}, 'cache': cache})
        return out

    def canon(st):
        s = st.set
        c = getattr(s, '_cache', None)
        cached_member = st.rules.get('daily12c')
        cm = None
        if cached_member is not None:
            cm = (len(getattr(cached_member, '_cache', None) or ()), bool(getattr(cached_member, '_cache_complete', False)))
        return (tuple(tuple(sorted(st.members[k])) for k in ('rrule', 'rdate', 'exrule', 'exdate')),
                None if c is None else len(c), bool(getattr(s, '_cache_complete', False)),
                getattr(s, '_len', None), cm,
                None if st.live is None else (st.live[1], st.live[2], st.live[3]))
    try:
        res = history.bfs(fresh, ops_for, do_step, check, canon, depth - len(first_ops), max_states=300000)
    except Capped:
        return Res(capped=True, outcome='capped',
                   viols=[{'kind': 'operation-did-not-terminate', 'first_ops': list(first_ops), 'cache': cache}])
    viols = []
    for hist, v in res.violations[:4]:
        v['history'] = list(first_ops) + list(hist)
        viols.append(v)
    return Res(trans=res.transitions, viols=viols, capped=res.truncated,
               extra={'states': res.states, 'distinct_answers': sum(len(x) for x in res.returns.values())},
               sample={'cache': cache, 'first_ops': list(first_ops), 'states': res.states, 'transitions': res.transitions,
                       'max_depth': res.max_depth + len(first_ops)})


def eval_fresh_differential(case):
    """the listing after a history equals the listing of a freshly built set with the same members"""
    from dateutil.rrule import rruleset
    cache, hist = case
    warnings.simplefilter('ignore')
    st = SState(cache)
    try:
        for op in hist:
            with_alarm(20.0, step, st, op)
        got = with_alarm(20.0, list, st.set)
    except Capped:
        return Res(capped=True, outcome='capped', viols=[{'kind': 'operation-did-not-terminate', 'history': list(hist), 'cache': cache}])
    f = rruleset(cache=cache)
    for role in ('rrule', 'exrule'):
        for n in st.members[role]:
            getattr(f, role)(make_rule(n))
    for role in ('rdate', 'exdate'):
        for n in st.members[role]:
            getattr(f, role)(make_date(n))
    exp = with_alarm(20.0, list, f)
    viols = []
    if got != exp:
        viols.append({'kind': 'differs-from-freshly-built-set', 'history': list(hist), 'got': got[:5], 'expected': exp[:5]})
    return Res(viols=viols, trans=2)


def signature(case, detail):
    return {'kind': detail.get('kind'), 'op': (detail.get('op') or ['?'])[0]}


def replay(part, case):
    if part.startswith('fresh'):
        return eval_fresh_differential((case[0], tuple(tuple(o) for o in case[1]))).viols
    c = (case[0], tuple(tuple(o) for o in case[1]), case[2], (tuple(case[3][0]), tuple(case[3][1])))
    return eval_root(c).viols


def run(ctx):
    history.selftest()
    pool = (tuple(RULES), tuple(DATES))
    depth = 5 if ctx.thorough else 4
    menu = ops_menu(pool[0], pool[1], ctx.thorough)
    adds = [op for op in menu if op[0] in ('rrule', 'exrule', 'rdate', 'exdate')]
    roots = []
    for cache in (False, True):
        roots.append((cache, (), 1, pool))                 # the empty set and its single operations
        for op in menu:
            roots.append((cache, (op,), depth, pool))       # BFS below each first operation (parallel roots)
    for cache in (False, True):
        for r in ('daily12c', 'daily6'):
            # a live iterator over a non-trivial set, then everything up to three more operations
            roots.append((cache, (('rrule', r), ('live-start', 1)), 5, pool))
    if ctx.thorough:
        small = (('daily6', 'alt4', 'daily12c'), ('d_occ', 'd_off', 'd_occ2'))
        for cache in (False, True):
            for op in ops_menu(small[0], small[1], True):
                roots.append((cache, (op,), 6, small))      # one level deeper over a reduced member pool
    ctx.explore('set-histories', roots, 'eval_root', chunk=1)
    # differential: history with partial iterations between mutations vs a freshly built set
    diffs = []
    for cache in (False, True):
        for a, b in itertools.product(adds, repeat=2):
            for q in (('take', 1), ('take', 11), ('list',)):
                diffs.append((cache, (a, q, b)))
                if ctx.thorough:
                    for c in adds[::3]:
                        diffs.append((cache, (a, q, b, ('take', 3), c)))
    ctx.explore('fresh-differential', diffs, 'eval_fresh_differential', chunk=64)
    ctx.coverage_extra.update({
        'states': ctx.counts['states'],
        'traces_validated_against_impl': ctx.counts['transitions'],
        'bounds': {'history_depth': depth, 'members': {'rules': list(pool[0]), 'dates': list(pool[1])},
                   'each_member_at_most': 2},
        'rule': 'BFS per first operation (parallel roots; states shared between roots are re-explored, counted per root); '
                'every operation answer compared with sorted set algebra on the members listings; distinct_answers is the '
                'number of distinct observed return values',
    })
    ctx.assumptions += ['member listings list(rule) are the reference for each member (C01 vouches for them)']
