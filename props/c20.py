"""C20 -- isoparse never misreads: accepted text is an ISO-8601 spelling of the result.

E1 (edit neighbourhood): for every valid string of every supported form, every string
within one edit (substitution, insertion, deletion over a 14-character alphabet, adjacent
transposition) -- thorough: within two edits for a core of strings -- plus every string of
length <= 5 (6 thorough) over a 12-character alphabet for the date / time / offset entry
points.  Oracle: refs/iso_ref.readings(s) = set of values the supported grammar assigns to
s; a returned value must be one of them, and an empty set demands ValueError.
"""
import datetime as D
import io
import itertools
import warnings

from mc.core import Res
from refs import iso_ref

ALPHA = '019-:.,+TWZ_ a'
SHORT_ALPHA = '01234569-:+.,WZ '
_CFG = {'edits': 1}


def worker_setup(arg):
    if arg:
        _CFG.update(arg)


def valid_strings(core=False):
    dates = [D.date(2014, 2, 14), D.date(2015, 12, 31), D.date(2004, 1, 1)]
    times = [D.time(10, 30, 15, 123456), D.time(0, 0, 0, 0), D.time(23, 59, 59, 999000)]
    if core:
        dates, times = dates[:2], times[:1]
    out = []
    for d in dates:
        for st in iso_ref.DATE_ONLY_STYLES:
            r = iso_ref.render_date(d, st)
            if r is None:
                continue
            out.append(r[0])
            if st not in iso_ref.COMPLETE:
                continue
            for t in times:
                forms = [iso_ref.render_time(t, 'h', True), iso_ref.render_time(t, 'm', True), iso_ref.render_time(t, 'm', False),
                         iso_ref.render_time(t, 's', True), iso_ref.render_time(t, 's', False),
                         iso_ref.render_time(t, 'f', True, 3, '.'), iso_ref.render_time(t, 'f', False, 6, ',')]
                if core:
                    forms = [forms[1], forms[3], forms[6]]
                for ttext, tval in forms:
                    for otext in ('', 'Z', '+01:00', '-0330', '+05'):
                        if core and otext in ('-0330',):
                            continue
                        out.append(r[0] + 'T' + ttext + otext)
                out.append(r[0] + ' ' + forms[0][0])
                out.append(r[0] + 'T24:00')
    return sorted(set(out))


def edits1(s):
    out = set()
    n = len(s)
    for i in range(n + 1):
        for c in ALPHA:
            out.add(s[:i] + c + s[i:])
        if i < n:
            out.add(s[:i] + s[i + 1:])
            for c in ALPHA:
                if c != s[i]:
                    out.add(s[:i] + c + s[i + 1:])
            if i + 1 < n and s[i] != s[i + 1]:
                out.add(s[:i] + s[i + 1] + s[i] + s[i + 2:])
    out.discard(s)
    return out


def value_of(x):
    from dateutil import tz
    if isinstance(x, D.datetime):
        off = None
        if x.tzinfo is not None:
            off = x.utcoffset().total_seconds()
        return ('dt', x.replace(tzinfo=None), off)
    if isinstance(x, D.date):
        return ('date', x)
    if isinstance(x, D.time):
        off = None
        if x.tzinfo is not None:
            off = x.utcoffset().total_seconds()
        return ('time', x.replace(tzinfo=None), off)
    if isinstance(x, D.tzinfo):
        return ('tz', x.utcoffset(None).total_seconds())
    return ('?', repr(x))


_PARSERS = {}


def parser_for(sep):
    from dateutil.parser import isoparser
    if sep not in _PARSERS:
        _PARSERS[sep] = isoparser(sep=sep)
    return _PARSERS[sep]


def judge(s, entry, sep=None):
    """-> None or violation dict for string s at the given entry point"""
    p = parser_for(sep)
    fn = {'datetime': p.isoparse, 'date': p.parse_isodate, 'time': p.parse_isotime, 'tz': p.parse_tzstr}[entry]
    try:
        got = fn(s)
    except ValueError:
        return None                                   # rejecting is always sound (acceptance is C07's business)
    except Exception as e:
        return {'kind': 'wrong-exception-type', 'text': s, 'entry': entry, 'error': repr(e)[:100]}
    sb = s.encode('ascii') if isinstance(s, str) else s
    rd = iso_ref.readings(sb, sep.encode('ascii') if sep else None, entry)
    v = value_of(got)
    if v in rd:
        return None
    return {'kind': 'not-iso-but-accepted' if not rd else 'misread', 'text': s, 'entry': entry, 'got': got,
            'readings': sorted(rd, key=repr)[:3], 'sep': sep}


def classify(s):
    """coarse reason the string is not ISO (for narrow finding signatures)"""
    body = s
    if any(c in body for c in '_'):
        return 'underscore-in-field'
    if '  ' in body or ' ' in body:
        return 'space-in-field'
    return 'other'


def eval_neighbourhood(v):
    warnings.simplefilter('ignore')
    viols = []
    kinds = set()
    cand = edits1(v)
    if _CFG['edits'] == 2:
        c2 = set()
        for s in cand:
            c2 |= edits1(s)
        cand |= c2
    n = 0
    acc = 0
    for s in sorted(cand):
        for sep in ((None, 'T') if _CFG.get('both_seps') else (None,)):
            n += 1
            r = judge(s, 'datetime', sep)
            if r is not None:
                key = (r['kind'], classify(s))
                if key not in kinds and len(viols) < 6:
                    kinds.add(key)
                    r['valid_neighbour'] = v
                    r['class'] = classify(s)
                    viols.append(r)
    # the valid string itself must be read as one of its readings
    r = judge(v, 'datetime')
    if r is not None:
        viols.append(r)
    return Res(trans=n, viols=viols, sample={'valid': v, 'neighbours': len(cand)} if v.startswith('2014-W07-5T10:30Z') or v == '2014045' else None)


def eval_short(case):
    """all strings over the short alphabet with a given prefix, at one entry point"""
    entry, prefix, length = case
    warnings.simplefilter('ignore')
    viols = []
    kinds = set()
    n = 0
    for L in range(0, length - len(prefix) + 1):
        for tail in itertools.product(SHORT_ALPHA, repeat=L):
            s = prefix + ''.join(tail)
            n += 1
            r = judge(s, entry)
            if r is not None:
                key = (r['kind'], classify(s))
                if key not in kinds and len(viols) < 4:
                    kinds.add(key)
                    r['class'] = classify(s)
                    viols.append(r)
    return Res(trans=n, viols=viols)


def boundary_strings():
    """every field at and just outside its range, in every date system / time form / offset form"""
    out = set()
    years = ['0000', '0001', '1900', '2000', '2004', '2014', '2015', '2100', '9999']
    for y in years:
        for m in ('00', '01', '02', '12', '13'):
            for d in ('00', '01', '28', '29', '30', '31', '32'):
                out.add('%s-%s-%s' % (y, m, d))
                out.add('%s%s%s' % (y, m, d))
        for w in ('00', '01', '52', '53', '54'):
            for d in ('', '0', '1', '7', '8'):
                out.add('%s-W%s%s' % (y, w, ('-' + d) if d else ''))
                out.add('%sW%s%s' % (y, w, d))
        for n in ('000', '001', '059', '060', '365', '366', '367'):
            out.add('%s-%s' % (y, n))
            out.add('%s%s' % (y, n))
        for m in ('00', '01', '12', '13'):
            out.add('%s-%s' % (y, m))
    times = []
    for h in ('00', '23', '24', '25'):
        for mi in ('00', '59', '60'):
            times.append('%s:%s' % (h, mi))
            times.append('%s%s' % (h, mi))
            for se in ('00', '59', '60'):
                times.append('%s:%s:%s' % (h, mi, se))
                times.append('%s%s%s' % (h, mi, se))
                times.append('%s:%s:%s.000' % (h, mi, se))
                times.append('%s:%s:%s,001' % (h, mi, se))
        times.append(h)
    offs = ['', 'Z', '+00', '-00:00', '+23', '+24', '-24', '+23:59', '-23:59', '+24:00', '-24:00', '+2400', '+24:01', '+00:60', '+0060',
            '-2360', '+25:00', '+99:99']
    for d in ('2014-02-14', '9999-12-31', '0001-01-01', '20140214', '2014-W07-5', '2014045'):
        for t in times:
            out.add(d + 'T' + t)
        for o in offs:
            out.add(d + 'T10:30' + o)
            out.add(d + 'T24:00' + o)
            out.add(d + 'T1030' + o)
    return sorted(out), sorted(set(times)), [o for o in offs if o]


def eval_boundaries(case):
    warnings.simplefilter('ignore')
    dts, times, offs = boundary_strings()
    viols = []
    kinds = set()
    n = 0
    batch = {'datetime': dts, 'date': [s for s in dts if 'T' not in s], 'time': times + [t + o for t in ('10:30', '2400', '10') for o in offs],
             'tz': offs}[case]
    for s in batch:
        n += 1
        r = judge(s, case)
        if r is None and case == 'datetime':
            r = judge(s, case, 'T')
        if r is not None:
            key = (r['kind'], classify(s))
            if key not in kinds and len(viols) < 6:
                kinds.add(key)
                r['class'] = 'field-boundary'
                viols.append(r)
    return Res(trans=n, viols=viols, sample={'entry': case, 'strings': n, 'examples': batch[:3]})


def eval_misc(case):
    from dateutil.parser import isoparser, isoparse
    kind = case[0]
    viols = []
    if kind == 'non-ascii':
        for s in ['2014-02-14T10:30é', '٢٠١٤-02-14', '2014–02–14', '２０１４-02-14', '2014-02-14T10:30Z​',
                  b'2014-02-14\xff', '2014-02-1²']:
            for fn in (isoparse, isoparser().parse_isodate, isoparser().parse_isotime, isoparser().parse_tzstr):
                try:
                    g = fn(s)
                    viols.append({'kind': 'non-ascii-accepted', 'text': repr(s), 'got': g})
                except ValueError:
                    pass
                except Exception as e:
                    viols.append({'kind': 'wrong-exception-type', 'text': repr(s), 'error': repr(e)[:100]})
    elif kind == 'sep-mismatch':
        for sep, text in (('T', '2014-02-14 10:30'), ('T', '2014-02-14t10:30'), (' ', '2014-02-14T10:30'), ('x', '2014-02-14T10:30'),
                          ('T', '20140214_1030'), ('T', '2014-W07-5 10')):
            try:
                g = isoparser(sep=sep).isoparse(text)
                viols.append({'kind': 'configured-separator-ignored', 'text': text, 'sep': sep, 'got': g})
            except ValueError:
                pass
            except Exception as e:
                viols.append({'kind': 'wrong-exception-type', 'text': text, 'error': repr(e)[:100]})
        for bad in ('', 'TT', 'é'):          # not a single character / not ASCII (a digit is not judged: the statement is silent)
            try:
                isoparser(sep=bad)
                viols.append({'kind': 'invalid-separator-accepted', 'sep': repr(bad)})
            except ValueError:
                pass
            except Exception as e:
                viols.append({'kind': 'wrong-exception-type', 'text': repr(bad), 'error': repr(e)[:100]})
    elif kind == 'input-types':
        # str, bytes, text stream and byte stream of the same characters must be read alike - in particular a stream
        # gets no leniency about surrounding white space or line ends
        import io
        p = isoparser()
        entries = [('isoparse', p.isoparse, '2019-12-31T05:07:11'), ('isoparse', p.isoparse, '20191231'), ('parse_isodate', p.parse_isodate, '2019-W01-1'),
                   ('parse_isotime', p.parse_isotime, '05:07:11.5'), ('parse_tzstr', p.parse_tzstr, '+05:30')]
        for name, fn, good in entries:
            for text in (good, good + '\n', good + '\r\n', good + ' ', ' ' + good, '\n' + good, good + '\t', good + 'x', good + '\x00'):
                def out(v):
                    try:
                        return ('ok', fn(v))
                    except ValueError:
                        return ('ValueError',)
                    except Exception as e:
                        return ('EXC', type(e).__name__)
                o = out(text)
                if text != good and o[0] == 'ok':
                    viols.append({'kind': 'not-iso-but-accepted', 'entry': name, 'text': repr(text), 'got': o[1]})
                for form, v in (('bytes', text.encode('ascii')), ('text-stream', io.StringIO(text)), ('byte-stream', io.BytesIO(text.encode('ascii')))):
                    o2 = out(v)
                    if o2 != o:
                        viols.append({'kind': 'input-types-differ', 'entry': name, 'text': repr(text), 'input': form, 'str_outcome': o, 'outcome': o2})
    elif kind == 'non-text':
        for x in (None, 20140214, 2014.5, ['2014'], D.date(2014, 2, 14)):
            try:
                g = isoparse(x)
                viols.append({'kind': 'non-text-accepted', 'text': repr(x), 'got': g})
            except (ValueError, TypeError):
                pass                          # the statement names ValueError for text; non-text may be TypeError
            except Exception as e:
                viols.append({'kind': 'wrong-exception-type', 'text': repr(x), 'error': repr(e)[:100]})
    return Res(viols=viols[:5], trans=10)


def signature(case, detail):
    return {'kind': detail.get('kind'), 'entry': detail.get('entry'), 'class': detail.get('class')}


def replay(part, case):
    if part.startswith('edit'):
        _CFG['edits'] = 2 if part.endswith('2') else 1
        return eval_neighbourhood(case).viols
    if part == 'field-boundaries':
        return eval_boundaries(case).viols
    if part == 'short-strings':
        return eval_short(tuple(case)).viols
    return eval_misc(tuple(case)).viols


def run(ctx):
    iso_ref.selftest()
    vs = valid_strings()
    ctx.explore('edit-distance-1', vs, 'eval_neighbourhood', chunk=8, setup_arg={'edits': 1, 'both_seps': True})
    if ctx.thorough:
        core = valid_strings(core=True)
        ctx.explore('edit-distance-2', core, 'eval_neighbourhood', chunk=1, setup_arg={'edits': 2, 'both_seps': False})
    L = ctx.pick(5, 6)
    short = []
    for entry in ('date', 'time', 'tz', 'datetime'):
        for a in SHORT_ALPHA:
            for b in SHORT_ALPHA:
                short.append((entry, a + b, L))
        for a in SHORT_ALPHA:
            short.append((entry, a, 1))
        short.append((entry, '', 0))
    ctx.explore('short-strings', short, 'eval_short', chunk=4)
    ctx.explore('field-boundaries', ['datetime', 'date', 'time', 'tz'], 'eval_boundaries', chunk=1)
    ctx.explore('misc', [('non-ascii',), ('sep-mismatch',), ('non-text',), ('input-types',)], 'eval_misc', serial=True)
    ctx.coverage_extra.update({
        'bounds': {'valid_strings': len(vs), 'edit_distance': 2 if ctx.thorough else 1, 'alphabet': ALPHA,
                   'short_string_length': L, 'short_alphabet': SHORT_ALPHA},
        'rule': 'every string within the edit bound of every valid string (default parser and sep="T" parser) + every string up to the '
                'length bound over the short alphabet at all four entry points; transitions = strings judged',
    })
    ctx.assumptions += ['refs/iso_ref.readings is the grammar oracle; rejecting a string is always sound here (acceptance is C07)']
