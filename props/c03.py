"""C03 -- date + relativedelta follows the documented replace/shift/clip/duration/weekday order.

E1 shape exploration: every relativedelta with <= k non-default constructor
fields (k=2 quick, 3 thorough) x every operand of a boundary set; oracle =
refs/reldelta_ref.add (ordinal arithmetic in the documented order).
"""
import collections
import datetime as D
import warnings

from mc import shape
from mc.core import Res
from refs import reldelta_ref as ref

MENU = collections.OrderedDict([
    ('years', [1, -1, 4, -100]),
    ('months', [1, -1, 11, -11, 12, 13, -25]),
    ('weeks', [1, -1]),
    ('days', [1, -1, 30, -366]),
    ('hours', [1, -1, 24, 25, -49]),
    ('minutes', [1, -61, 1440]),
    ('seconds', [1, -1, 86400, 59, -3661]),
    ('microseconds', [1, -1, 10 ** 6, -(10 ** 6) - 1]),
    ('leapdays', [1, -1]),
    ('year', [2000, 1900, 2023]),
    ('month', [1, 2, 12]),
    ('day', [1, 29, 30, 31]),
    ('hour', [0, 23]),
    ('minute', [0, 59]),
    ('second', [59]),
    ('microsecond', [0, 999999]),
    ('weekday', [(0, 'int'), (6, 'int'), (0, None), (6, 1), (4, -1), (1, 2), (2, -3), (5, 5), (3, -5), (0, -1), (2, 0)]),
    ('yearday', [1, 59, 60, 61, 365, 366]),
    ('nlyearday', [1, 59, 60, 365]),
])


def operands():
    from dateutil import tz
    lon = tz.gettz('Europe/London')
    ops = [D.datetime(2003, 9, 17, 20, 54, 47, 282310), D.datetime(2000, 2, 29, 0, 0),
           D.datetime(2001, 1, 31, 23, 59, 59, 999999), D.datetime(1900, 3, 1, 12),
           D.datetime(2024, 12, 31, 23, 59, 59), D.date(2000, 2, 29), D.date(2023, 1, 31),
           D.date(2100, 2, 28), D.datetime(1, 1, 1), D.datetime(9999, 12, 31, 23, 59, 59, 999999),
           D.date(1, 1, 31), D.date(9999, 12, 1), D.date(2004, 3, 1), D.datetime(2023, 3, 31, 12, 0, 0, 1)]
    if lon is not None:
        ops.append(D.datetime(2019, 3, 31, 1, 30, tzinfo=lon))
    ops.append(D.datetime(2019, 10, 27, 1, 30, tzinfo=tz.tzoffset('X', -3600 * 3 - 1800)))
    return ops


_OPS = None


def build(f):
    from dateutil.relativedelta import relativedelta, weekday
    kw = dict(f)
    reff = dict(f)
    if 'weekday' in kw:
        w, n = kw['weekday']
        if n == 'int':
            kw['weekday'] = w
            reff['weekday'] = (w, None)
        else:
            kw['weekday'] = weekday(w, n)
            reff['weekday'] = (w, n)
    return kw, reff


def eval_case(f):
    global _OPS
    from dateutil.relativedelta import relativedelta
    if _OPS is None:
        _OPS = operands()
    warnings.simplefilter('ignore')
    kw, reff = build(f)
    viols = []
    try:
        rd = relativedelta(**kw)
    except ValueError:
        rd = None
    except Exception as e:
        return Res(outcome='ctor-exc', viols=[{'kind': 'ctor-exception', 'error': repr(e)}])
    if rd is None:
        if ref.resolve_yearday(reff) is not None:
            viols.append({'kind': 'ctor-valueerror-unexpected'})
        return Res(outcome='ctor-valueerror', viols=viols, nontrivial=False)
    trans = 0
    nerr = 0
    for oi, dt in enumerate(_OPS):
        for mode in ('add', 'sub'):
            trans += 1
            if mode == 'add':
                exp = ref.add(dt, reff)
            else:
                exp = ref.add(dt, ref.negate(reff))
            try:
                got = dt + rd if mode == 'add' else dt - rd
            except (ValueError, OverflowError):
                got = ref.ERR
            except Exception as e:
                got = 'EXC:' + type(e).__name__
            if exp == ref.ERR:
                nerr += 1
            ok = (type(got) is type(exp)) and got == exp
            if ok and got != ref.ERR and isinstance(got, D.datetime):
                ok = got.tzinfo is getattr(dt, 'tzinfo', None) or not isinstance(dt, D.datetime)
            if not ok:
                viols.append({'kind': 'wrong-result', 'mode': mode, 'operand': dt, 'got': got, 'expected': exp})
                continue
            if got == ref.ERR:
                continue
            # commutation and negation laws
            try:
                if mode == 'add':
                    other = rd + dt
                else:
                    other = dt + (-rd)
            except Exception as e:
                other = 'EXC:' + type(e).__name__
            if not (type(other) is type(got) and other == got):
                viols.append({'kind': 'law-' + ('commute' if mode == 'add' else 'sub-is-add-neg'),
                              'operand': dt, 'got': other, 'expected': got})
    return Res(trans=trans, viols=viols[:4], outcome='ok' if not viols else 'viol',
               nontrivial=nerr < trans, extra={'expected_errors': nerr},
               sample={'delta': f, 'operand': _OPS[0], 'result': ref.add(_OPS[0], reff)} if len(f) == 2 and 'weekday' in f else None)


def signature(case, detail):
    return {'kind': detail.get('kind'), 'fields': sorted(case)}


def replay(part, case):
    return eval_case(case).viols


def cases(k):
    for f in shape.shapes(MENU, k):
        if 'yearday' in f and 'nlyearday' in f:
            continue
        yield f


def run(ctx):
    ref.selftest()
    k = ctx.pick(3, 4)
    n = sum(1 for _ in cases(k))
    ctx.explore('k<=%d' % k, cases(k), 'eval_case', chunk=256, space_size=n)
    # every day number, alone and together with one companion field (the month boundaries of both year kinds)
    yd = []
    for field in ('yearday', 'nlyearday'):
        for n in range(0, 368):
            yd.append({field: n})
            for comp in ({'years': 1}, {'years': -4}, {'year': 1900}, {'year': 2000}, {'days': 1}, {'leapdays': -1},
                         {'weekday': (0, 1)}, {'weekday': (6, -1)}, {'months': 2}):
                if ctx.thorough or n in (1, 31, 32, 58, 59, 60, 61, 90, 91, 181, 182, 243, 244, 304, 305, 334, 335, 336, 364, 365, 366):
                    c = {field: n}
                    c.update(comp)
                    yd.append(c)
    ctx.explore('every-day-number', yd, 'eval_case', chunk=64)
    ctx.coverage_extra.update({
        'bounds': {'deviation_bound_k': k, 'day_numbers': '0..367 for yearday and nlyearday, alone and with 9 companion fields', 'operands': len(operands()), 'modes': ['add', 'sub']},
        'rule': 'all constructor-field shapes with <= k non-default fields from the boundary menus x all operands x '
                '{+,-}; non-trivial = at least one operand gives an in-range expected result',
        'menus': {k_: [str(x) for x in v] for k_, v in MENU.items()},
        'reference_crosscheck': 0,
    })
    ctx.assumptions += ['CPython datetime/calendar', 'reference model refs/reldelta_ref.py (documented order by ordinal arithmetic)']
