"""C01 -- rrule yields exactly the RFC 5545 recurrence set, in order.

E1 shape exploration: all rules with <= k non-default parts (BY-parts, interval,
wkst, termination, start kind) x 7 frequencies x boundary starts, compared with
the independent filter-semantics model refs/rrule_ref.py.
"""
import datetime as D
import itertools

from mc import shape, seams
from mc.core import Res, Capped
from props import rules
from refs import rrule_ref

MAXN = {'quick': 40, 'thorough': 120}
_CFG = {'maxn': 40}

QUIRKS = ['weekly-first-period-starts-at-dtstart-day', 'byday-plain-and-nth-intersected',
          'byeaster-own-year-only']


def valid_shape(freq, sh):
    # (an ordinal such as 53TU in month scope is grammatical - RFC 5545 ordwk is 1..53 - and simply never matches:
    # such rules are judged like any other: ValueError or nothing)
    return True


def gen_cases(k, freqs, starts, kmin=0):
    for freq in freqs:
        for st in starts:
            for sh in shape.shapes(rules.MENUS, k, kmin):
                if not valid_shape(freq, sh):
                    continue
                c = dict(sh)
                c['freq'] = freq
                c['start'] = st
                yield c


def worker_setup(arg):
    if arg:
        _CFG.update(arg)


def compare(status, items, complete, exp, maxn):
    """-> None or (symptom, index)"""
    if status == 'ok':
        if complete:
            if list(items) == list(exp):
                return None
        else:
            if list(items) == list(exp[:len(items)]):
                return None
        i = 0
        while i < len(items) and i < len(exp) and items[i] == exp[i]:
            i += 1
        if i >= len(exp):
            sym = 'extra'
        elif i >= len(items):
            sym = 'missing'
        elif items[i] < exp[i]:
            sym = 'extra'
        else:
            sym = 'missing'
        return (sym, i)
    if status == 'ValueError-init':
        return None if not exp else ('ValueError-but-nonempty', 0)
    if status == 'ValueError-iter':
        if not items and not exp:
            return None
        return ('ValueError-after-items' if items else 'ValueError-but-nonempty', len(items))
    return ('exception', 0)


def eval_case(case):
    maxn = _CFG['maxn']
    freq = case['freq']
    horizon = rules.horizon_for(case)
    dtstart = rules.start_value(case)
    refkw = rules.ref_kwargs(case, dtstart)
    base = None
    term = {}
    if case.get('term') is not None:
        if case['term'][0] == 'until':
            base = rrule_ref.Spec(**refkw).occurrences(horizon, maxn)
        term = rules.resolve_term(case, dtstart, base)
    refkw.update(term)
    exp = rrule_ref.Spec(**refkw).occurrences(horizon, maxn)
    implkw = rules.impl_kwargs(case, dtstart)
    implkw.update(term)
    budget = 1500 if freq >= rrule_ref.HOURLY else 20000
    status, items, complete = rules.run_impl(implkw, horizon, maxn, budget=budget)
    viols = []
    bad = compare(status, items, complete, exp, maxn)
    # structural requirements on every yielded value
    if status == 'ok' and bad is None:
        tz = dtstart.tzinfo if isinstance(dtstart, D.datetime) else None
        prev = None
        for x in items:
            if type(x) is not D.datetime or x.microsecond != 0 or x.tzinfo is not tz:
                bad = ('bad-value', items.index(x))
                break
            if prev is not None and not (x > prev):
                bad = ('not-increasing', items.index(x))
                break
            prev = x
    if bad is not None:
        viols.append({'kind': bad[0], 'index': bad[1], 'status': status,
                      'got': list(items[max(0, bad[1] - 1):bad[1] + 3]),
                      'expected': list(exp[max(0, bad[1] - 1):bad[1] + 3]),
                      'n_got': len(items), 'n_expected': len(exp), 'term': term})
    nontrivial = len(exp) >= 2 or status != 'ok'
    out = 'capped' if not complete else ('empty' if not exp else status)
    b = seams.bound()
    return Res(trans=len(items) + 1, nontrivial=nontrivial, outcome=out, viols=viols,
               capped=not complete,
               extra=dict({'seam_horizon_bound': int(bool(b['horizon'])), 'seam_budget_bound': int(bool(b['period_budget']))},
                          **({'capped_%s' % rules.FREQNAMES[freq]: 1} if not complete else {})),
               sample=({'rule': rules.describe(case), 'first': list(exp[:3]), 'n': len(exp)}
                       if len(case) == 4 and 'byweekno' in case and case['freq'] == 0 else None))


def explain(case):
    """which documented deviation (if any) reproduces the implementation's output exactly"""
    maxn = _CFG['maxn']
    horizon = rules.horizon_for(case)
    dtstart = rules.start_value(case)
    implkw = rules.impl_kwargs(case, dtstart)
    hits = []
    for q in QUIRKS:
        refkw = rules.ref_kwargs(case, dtstart)
        term = {}
        if case.get('term') is not None:
            base = rrule_ref.Spec(**refkw).occurrences(horizon, maxn)
            term = rules.resolve_term(case, dtstart, base)
        refkw.update(term)
        kw = dict(implkw)
        kw.update(term)
        exp = rrule_ref.Spec(quirks=(q,), **refkw).occurrences(horizon, maxn)
        status, items, complete = rules.run_impl(kw, horizon, maxn, budget=20000)
        if status == 'ok' and complete and list(items) == list(exp):
            hits.append(q)
    return hits


def signature(case, detail):
    parts = sorted(k for k in case if k not in ('freq', 'start'))
    sig = {'kind': detail.get('kind'), 'parts': parts, 'freq': rules.FREQNAMES[case['freq']]}
    try:
        hits = explain(case) if detail.get('kind') in ('extra', 'missing') else []
    except Exception as e:
        hits = ['explain-error:%s' % type(e).__name__]
    sig['explained_by'] = hits[0] if hits else 'unexplained'
    return sig


def replay(part, case):
    return eval_case(case).viols


def run(ctx):
    rrule_ref.selftest()
    k = ctx.pick(2, 3)
    maxn = MAXN[ctx.tier]
    _CFG['maxn'] = maxn
    starts = ctx.rotate(rules.STARTS[:6], 2) + rules.STARTS[6:] if not ctx.thorough else rules.STARTS
    freqs = list(range(7))
    cs = list(gen_cases(k, freqs, starts))
    ctx.explore('shapes-k<=%d' % k, cs, 'eval_case', chunk=24, setup_arg={'maxn': maxn}, space_size=len(cs))
    ctx.coverage_extra.update({
        'bounds': {'deviation_bound_k': k, 'occurrences_compared': maxn,
                   'horizon_days_by_freq': rules.HORIZON_DAYS, 'starts': [str(s) for s in starts]},
        'rule': 'all rules with <= k non-default parts (BY-parts, interval, wkst, termination, start kind) x 7 '
                'frequencies x starts; non-trivial = reference yields >= 2 occurrences or implementation raised',
        'menus': {k_: [str(x) for x in v] for k_, v in rules.MENUS.items()},
    })
    ctx.assumptions += ['reference model refs/rrule_ref.py (filter semantics, brute force over days); its week numbers are '
                        'cross-checked against date.isocalendar() on every run',
                        'horizon seam: dateutil.rrule.datetime.MAXYEAR proxy; period budget seam on _iterinfo.*dayset',
                        'zone arithmetic of tz.tzutc / tz.gettz for aware starts (C04)']
