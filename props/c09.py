"""C09 -- relativedelta(dt1, dt2) is the calendar difference that carries dt2 onto dt1.

Exhaustive over all ordered pairs of a boundary set (month ends, leap days, three
adjacent years, three times of day) + all ordered day pairs of a two-year window
+ mixed date/datetime, aware pairs and the calendar edges.
"""
import calendar
import datetime as D
import itertools

from mc.core import Res
from refs import reldelta_ref as ref

ABS = ('year', 'month', 'day', 'hour', 'minute', 'second', 'microsecond', 'weekday')


THOROUGH = False


def boundary_set():
    days = []
    for y in ((1899, 1900, 1999, 2000, 2001, 2004) if THOROUGH else (1999, 2000, 2001)):
        for m in range(1, 13):
            for d in (1, 2, 15, 27, 28, 29, 30, 31):
                try:
                    days.append(D.date(y, m, d))
                except ValueError:
                    pass
    times = [D.time(0), D.time(12, 30, 15, 500000), D.time(23, 59, 59, 999999)]
    if THOROUGH:
        times += [D.time(0, 0, 0, 1), D.time(12, 30, 15, 499999)]
    return [D.datetime.combine(d, t) for d in days for t in times]


def window_days():
    d = D.date(2003, 7, 1)
    out = []
    while d <= D.date(2005, 6, 30):
        out.append(d)
        d += D.timedelta(days=1)
    return out


def extra_set():
    from dateutil import tz
    utc = tz.tzutc()
    off = tz.tzoffset('X', 19800)
    naive = [D.datetime(1, 1, 1), D.datetime(1, 1, 31, 0, 0, 0, 1), D.datetime(9999, 12, 31, 23, 59, 59, 999999),
             D.datetime(9999, 1, 31), D.datetime(2000, 2, 29, 6), D.datetime(1900, 2, 28, 23, 59, 59, 999999),
             D.datetime(2100, 3, 1), D.datetime(2024, 2, 29, 12, 0, 0, 1), D.datetime(2023, 3, 31, 1, 2, 3, 4)]
    dates = [D.date(1, 1, 1), D.date(9999, 12, 31), D.date(2000, 2, 29), D.date(2001, 1, 31), D.date(2024, 3, 30),
             D.date(1999, 12, 31)]
    aware_u = [x.replace(tzinfo=utc) for x in naive[3:]]
    aware_o = [x.replace(tzinfo=off) for x in naive[3:]]
    # one zone with DST, wall times on both sides of (and close to) its transitions: the difference is a
    # wall-clock one, so the inverse law must hold across the offset change as well
    ny = tz.gettz('America/New_York') or tz.tzstr('EST5EDT,M3.2.0,M11.1.0')
    walls = [D.datetime(2024, 3, 9, 12), D.datetime(2024, 3, 10, 1, 59, 59), D.datetime(2024, 3, 10, 3, 0), D.datetime(2024, 3, 11, 2, 30),
             D.datetime(2024, 11, 2, 1, 30), D.datetime(2024, 11, 3, 0, 30), D.datetime(2024, 11, 3, 3, 0, 0, 1), D.datetime(2024, 11, 4, 1, 30),
             D.datetime(2023, 11, 5, 12), D.datetime(2025, 3, 9, 12), D.datetime(2024, 7, 31, 23, 59, 59, 999999), D.datetime(2024, 1, 31)]
    aware_d = [w.replace(tzinfo=ny) for w in walls]
    return naive, dates, aware_u, aware_o, aware_d


def check_pair(a, b):
    """returns (viols, nontrivial)"""
    from dateutil.relativedelta import relativedelta
    v = []
    try:
        rd = relativedelta(a, b)
    except Exception as e:
        return [{'kind': 'ctor-exception', 'error': repr(e)}], True
    a_dt = a if isinstance(a, D.datetime) else D.datetime(a.year, a.month, a.day)
    b_dt = b if isinstance(b, D.datetime) else D.datetime(b.year, b.month, b.day)
    try:
        s = b + rd
        s_dt = s if isinstance(s, D.datetime) else D.datetime(s.year, s.month, s.day)
        if a_dt.tzinfo is not None and s_dt.tzinfo is None:
            s_dt = s_dt.replace(tzinfo=a_dt.tzinfo)
        if s_dt != a_dt:
            v.append({'kind': 'inverse-law', 'got': s, 'rd': rd})
    except Exception as e:
        v.append({'kind': 'inverse-law-exception', 'error': repr(e), 'rd': rd})
    if any(getattr(rd, k) is not None for k in ABS) or rd.leapdays:
        v.append({'kind': 'absolute-field-set', 'rd': rd})
    if not (abs(rd.months) < 12 and abs(rd.hours) < 24 and abs(rd.minutes) < 60 and
            abs(rd.seconds) < 60 and abs(rd.microseconds) < 10 ** 6):
        v.append({'kind': 'not-normalised', 'rd': rd})
    if rd.years * rd.months < 0:
        v.append({'kind': 'years-and-months-of-opposite-sign', 'rd': rd})
    M = rd.years * 12 + rd.months
    Mr = ref.max_month_shift(a_dt.replace(tzinfo=None), b_dt.replace(tzinfo=None))
    if M != Mr:
        v.append({'kind': 'month-part-not-maximal', 'got': M, 'expected': Mr, 'rd': rd})
    if a_dt == b_dt and rd:
        v.append({'kind': 'self-difference-not-empty', 'rd': rd})
    return v, a_dt != b_dt


_SETS = {}


def _get(name):
    if name not in _SETS:
        if name == 'B':
            _SETS[name] = boundary_set()
        elif name == 'W':
            _SETS[name] = window_days()
        else:
            _SETS[name] = extra_set()
    return _SETS[name]


def eval_row(case):
    """case = (set name, index of dt1); pairs it with every dt2 of the set."""
    name, i = case
    viols = []
    n = 0
    nt = 0
    if name in ('B', 'W'):
        S = _get(name)
        a = S[i]
        for b in S:
            n += 1
            v, t = check_pair(a, b)
            nt += t
            for x in v[:1]:
                x.update(dt1=a, dt2=b)
                viols.append(x)
    else:
        naive, dates, au, ao, ad = _get('X')
        groups = [naive + dates, au, ao, naive + _get('B')[::97], dates + _get('W')[::61], ad]
        G = groups[i]
        for a in G:
            for b in G:
                n += 1
                v, t = check_pair(a, b)
                nt += t
                for x in v[:1]:
                    x.update(dt1=a, dt2=b)
                    viols.append(x)
    return Res(trans=n, viols=viols[:5], extra={'pairs': n, 'pairs_distinct': nt},
               sample={'dt1': a, 'dt2': b} if i == 7 else None)


def eval_pair(case):
    a, b = case
    v, t = check_pair(a, b)
    for x in v:
        x.update(dt1=a, dt2=b)
    return Res(viols=v)


def signature(case, detail):
    return {'kind': detail.get('kind')}


def replay(part, case):
    if isinstance(case, (list, tuple)) and len(case) == 2 and isinstance(case[0], str):
        return eval_row(tuple(case)).viols
    return eval_pair(case).viols


def worker_setup(thorough):
    global THOROUGH
    THOROUGH = bool(thorough)
    _SETS.clear()


def run(ctx):
    global THOROUGH
    ref.selftest()
    THOROUGH = ctx.thorough
    _SETS.clear()
    B = boundary_set()
    W = window_days()
    # quick: seed-rotated third of the dt1 rows (every dt2); thorough: all rows
    rows_b = list(range(len(B)))
    rows_w = list(range(len(W)))
    ctx.explore('boundary-pairs', [('B', i) for i in rows_b], 'eval_row', chunk=8, setup_arg=ctx.thorough)
    ctx.explore('window-day-pairs', [('W', i) for i in rows_w], 'eval_row', chunk=8, setup_arg=ctx.thorough)
    ctx.explore('mixed-aware-edges', [('X', i) for i in range(6)], 'eval_row', chunk=1, setup_arg=ctx.thorough)
    ctx.coverage_extra.update({
        'states': ctx.counts['pairs'],
        'traces_validated_against_impl': ctx.counts['pairs'],
        'bounds': {'boundary_set': len(B), 'window_days': len(W),
                   'rows_explored': [len(rows_b), len(rows_w)]},
        'rule': 'all ordered pairs (dt1 row x every dt2) of the boundary set and of the day window; thorough doubles the '
                'years and adds two times of day; distinct_nontrivial counts dt1 rows, pairs_distinct counts pairs with dt1 != dt2',
        'reference_crosscheck': 0,
    })
    ctx.assumptions += ['CPython datetime', 'refs/reldelta_ref.max_month_shift: brute-force month shift with day clipping']
