"""Shared per-zone timeline walk for C04, C05, C06: zone cases, probe instants, zone loading."""
import datetime as D
import io

from refs import tzif_ref

EPOCH = tzif_ref.EPOCH

QUICK_DELTAS = [-86400, -7200, -3601, -3600, -3599, -1800, -1, 0, 1, 1799, 1800, 3599, 3600, 3601, 7199, 7200, 86400]


def thorough_deltas():
    ds = set()
    for d in QUICK_DELTAS:
        for e in range(-5, 6):
            ds.add(d + e)
    for m in range(-26 * 60, 26 * 60 + 1, 7):       # every 7 minutes within +-26 h
        ds.add(m * 60)
    return sorted(ds)


def zone_cases(ctx=None):
    cases = [('file', name) for name, path in tzif_ref.corpus()]
    cases += [('synthetic', n) for n in tzif_ref.synthetic_shapes()]
    return cases


def load(case):
    """-> (reference Zone, raw TZif bytes, label)"""
    kind, name = case[0], case[1]
    if kind == 'file':
        path = dict(tzif_ref.corpus())[name]
        with open(path, 'rb') as f:
            data = f.read()
    else:
        times, idx, types = tzif_ref.synthetic_shapes()[name]
        data = tzif_ref.encode(times, idx, types)
    return tzif_ref.decode(data), data, '%s:%s' % (kind, name)


def impl_zone(case, data):
    from dateutil import tz
    if case[0] == 'file':
        return tz.tzfile(dict(tzif_ref.corpus())[case[1]])
    return tz.tzfile(io.BytesIO(data), filename='synthetic:' + case[1])


def utc_probes(zone, deltas, include_edges=True):
    """UTC seconds around every transition, each tagged in-range (t_first <= u < t_last) or not"""
    us = set()
    for t in zone.times:
        for d in deltas:
            us.add(t + d)
    if not zone.times:
        us.update([0, tzif_ref.T0, -86400 * 365 * 40, 86400 * 365 * 60])
    lo, hi = -2 ** 31 + 86400 * 2, 2 ** 31 - 86400 * 2
    return sorted(u for u in us if lo <= u <= hi)


def utc_aware(u):
    from dateutil import tz
    return (EPOCH + D.timedelta(seconds=u)).replace(tzinfo=tz.UTC)
