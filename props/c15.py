"""C15 -- parse() options: default fill-in, time-zone resolution and fuzzy modes.

Parts:
  defaults  partial texts x defaults on days 28-31 of long/short months and leap years
  zones     time-zone texts x tzinfos forms x ignoretz x process TZ settings (decision table of the documented order)
  fuzzy     each unambiguous rendering embedded in filler text (before / after / both); fuzzy_with_tokens
  strict=>fuzzy  every text of the token space accepted without fuzzy gives the same result with fuzzy
"""
import calendar
import datetime as D
import itertools
import time
import warnings

from mc.core import Res
from props.posixmenu import tz_env
from props import c14
from refs import parse_render as R

# ---------------------------------------------------------------- defaults
# (text, fields it states, weekday or None)
PARTIALS = [
    ('Feb', {'month': 2}, None), ('February', {'month': 2}, None), ('Feb 2003', {'month': 2, 'year': 2003}, None),
    ('Feb 2004', {'month': 2, 'year': 2004}, None), ('2003', {'year': 2003}, None), ('2004', {'year': 2004}, None),
    ('10:36', {'hour': 10, 'minute': 36}, None), ('10:36:28', {'hour': 10, 'minute': 36, 'second': 28}, None),
    ('10:36:28.5', {'hour': 10, 'minute': 36, 'second': 28, 'microsecond': 500000}, None),
    ('10pm', {'hour': 22}, None), ('12 am', {'hour': 0}, None), ('Sep 30', {'month': 9, 'day': 30}, None),
    ('Sep', {'month': 9}, None), ('April', {'month': 4}, None), ('31', {'day': 31}, None), ('30', {'day': 30}, None),
    ('29', {'day': 29}, None), ('1', {'day': 1}, None), ('Feb 29', {'month': 2, 'day': 29}, None),
    ('Mon', {}, 0), ('Monday', {}, 0), ('Sunday', {}, 6), ('Wed', {}, 2), ('Monday 10:36', {'hour': 10, 'minute': 36}, 0),
    ('Friday Feb', {'month': 2}, 4), ('Sat 2004', {'year': 2004}, 5), ('Tue 31', {'day': 31}, 1),
    ('2004-02', {'year': 2004, 'month': 2}, None), ('June 2100', {'year': 2100, 'month': 6}, None),
    ('10h36m', {'hour': 10, 'minute': 36}, None), ('T10:36', {'hour': 10, 'minute': 36}, None),
]
def _grammar_partials():
    """partial texts from a small grammar: [weekday] [date part] [time part] - every combination"""
    wds = [('', None), ('Mon ', 0), ('Friday ', 4), ('Sun, ', 6)]
    dates = [('', {}), ('Feb', {'month': 2}), ('Feb 2003', {'month': 2, 'year': 2003}), ('2003', {'year': 2003}),
             ('Sep 30', {'month': 9, 'day': 30}), ('30', {'day': 30}), ('Feb 29', {'month': 2, 'day': 29}),
             ('2004-02', {'year': 2004, 'month': 2}), ('December 2004', {'year': 2004, 'month': 12}),
             ('1 Apr', {'month': 4, 'day': 1})]
    times = [('', {}), (' 10:36', {'hour': 10, 'minute': 36}), (' 10:36:28', {'hour': 10, 'minute': 36, 'second': 28}),
             (' 10pm', {'hour': 22}), (' 12 am', {'hour': 0}), (' 10h36m', {'hour': 10, 'minute': 36}), (' 00:00:00.5', {'hour': 0, 'minute': 0, 'second': 0, 'microsecond': 500000})]
    out = []
    for (w, wd), (d, df), (t, tf) in itertools.product(wds, dates, times):
        text = (w + d + t).strip().strip(',')
        if not text:
            continue
        f = dict(df)
        f.update(tf)
        out.append((text, f, wd))
    return out


PARTIALS += [p for p in _grammar_partials() if p[0] not in set(x[0] for x in PARTIALS)]


def _numeric_partials():
    """two numbers only: month-day, day-month under dayfirst, year-month and month-year - the forms whose reading
    follows from the values alone (a member above 31 is the year, a member above 12 cannot be the month)"""
    import time as _time
    from refs import parse_render as R
    cur = _time.localtime().tm_year
    y2 = lambda yy: R.expected_two_digit_year(yy, cur)
    out = []
    for sep in ('-', '/'):            # (a dot between two numbers reads as a decimal point)
        for m, d in ((9, 25), (12, 31), (1, 31), (2, 13), (10, 13)):
            out.append(('%02d%s%02d' % (m, sep, d), {'month': m, 'day': d}, None, {}))
            out.append(('%02d%s%02d' % (d, sep, m), {'month': m, 'day': d}, None, {'dayfirst': True}))
        for y, m in ((2003, 9), (1999, 12), (2032, 1), (1931, 10)):
            out.append(('%04d%s%02d' % (y, sep, m), {'year': y, 'month': m}, None, {}))
            out.append(('%02d%s%04d' % (m, sep, y), {'year': y, 'month': m}, None, {}))
        for yy, m in ((99, 1), (32, 12), (50, 9), (76, 10)):
            out.append(('%02d%s%02d' % (yy, sep, m), {'year': y2(yy), 'month': m}, None, {}))
            out.append(('%02d%s%02d' % (m, sep, yy), {'year': y2(yy), 'month': m}, None, {}))
    return out


NUMERIC_PARTIALS = _numeric_partials()
DEFAULTS = [D.datetime(2003, 1, 31, 1, 2, 3, 4), D.datetime(2003, 3, 30, 23, 59, 59, 999999), D.datetime(2004, 1, 29, 12, 0),
            D.datetime(2003, 1, 29, 0, 0), D.datetime(2003, 5, 31), D.datetime(2000, 2, 29, 6, 7, 8), D.datetime(2003, 9, 25, 10, 0),
            D.datetime(2003, 12, 28, 0, 0, 1), D.datetime(2003, 10, 31, 5), D.datetime(1900, 1, 30), D.datetime(2100, 3, 31),
            D.datetime(2003, 2, 28), D.datetime(9999, 12, 31, 23, 0), D.datetime(1, 1, 1)]


def expected_default(default, fields, weekday):
    kw = dict(fields)
    if 'second' in kw and 'microsecond' not in kw:
        kw['microsecond'] = 0          # a seconds field without a fraction states whole seconds
    y = kw.get('year', default.year)
    m = kw.get('month', default.month)
    if 'day' not in kw:
        dim = calendar.monthrange(y, m)[1]
        if default.day > dim:
            kw['day'] = dim
    try:
        r = default.replace(**kw)
    except ValueError:
        return 'ValueError'
    if weekday is not None and 'day' not in fields:
        try:
            r = r + D.timedelta(days=(weekday - r.weekday()) % 7)
        except OverflowError:
            return 'ValueError'
    return r


def eval_defaults(default):
    from dateutil import parser
    warnings.simplefilter('ignore')
    viols = []
    n = 0
    for text, fields, wd, kw in [p + ({},) for p in PARTIALS] + NUMERIC_PARTIALS:
        n += 1
        exp = expected_default(default, fields, wd)
        try:
            got = parser.parse(text, default=default, **kw)
        except ValueError:
            got = 'ValueError'
        except OverflowError:
            got = 'ValueError'
        except Exception as e:
            got = 'EXC:' + type(e).__name__
        if got != exp:
            viols.append({'kind': 'default-fill-in-wrong', 'text': text, 'flags': kw, 'default': default, 'got': got, 'expected': exp,
                          'states_day': 'day' in fields, 'weekday': wd})
    return Res(trans=n, viols=viols[:5], sample={'default': default, 'texts': len(PARTIALS)} if default.day == 31 and default.month == 1 else None)


# ---------------------------------------------------------------- zone resolution
ZTEXTS = ['+0300', '-03:00', ' +0300', 'UTC', 'Z', ' GMT', ' UTC', ' GMT+3', ' UTC-3', ' GMT-03:30', ' GMT+03:30', ' UTC+5:45',
          '-0330', ' -09:30', '-00:45', '+05:45', ' -0230 (NDT)', ' EST', ' EDT', ' BRST', ' BST', ' CHAST', ' NOVST', ' +1245 (CHAST)',
          '+0000', ' -0000', ' +00:00', '', ' CET', ' XYZT', ' +0300 (MSK)', ' -0500 (EST)']
BASES = ['2003-09-25 10:36:28', '2003-01-25 10:36:28', '2003-10-26 01:30:00', '2003-11-02 01:30:00']
TZENVS = [None, 'Europe/London', 'America/New_York', 'EST5EDT,M4.1.0,M10.5.0', 'UTC0', 'CHAST-12:45CHADT,M9.5.0/2:45,M4.1.0/3:45',
          'UTC0BST,M3.5.0/1,M10.5.0/2']      # a local zone whose standard time is *named* UTC and that has a summer time


class _Probe(D.tzinfo):
    def __init__(self, tag='PRB'):
        self.tag = tag

    def utcoffset(self, dt):
        return D.timedelta(minutes=7)

    def dst(self, dt):
        return D.timedelta(0)

    def tzname(self, dt):
        return self.tag


PROBE = _Probe('PRB')


def tzinfos_forms():
    return [('absent', None),
            ('map-tzinfo', {'EST': PROBE, 'BRST': PROBE, 'XYZT': PROBE, 'GMT': PROBE, 'MSK': PROBE, 'NOVST': PROBE}),
            ('map-int', {'EST': -18000, 'BRST': -7200, 'XYZT': 3600, 'NOVST': 25200}),
            ('map-str', {'EST': 'EST5EDT', 'BRST': 'BRST3'}),
            ('map-none', {'EST': None, 'BRST': None}),
            ('map-int-zero', {'EST': 0, 'GMT': 0, 'UTC': 0, 'XYZT': 0, 'MSK': 0}),
            ('callable-zero', lambda name, off: 0),
            ('callable', lambda name, off: PROBE),
            ('callable-int', lambda name, off: 5400),
            ('callable-none', lambda name, off: None)]


def scan_zone_text(z):
    """what the text states: (name or None, offset seconds or None)"""
    z = z.strip()
    name, off = None, None
    if z.endswith(')'):
        name = z[z.index('(') + 1:-1]
        z = z[:z.index('(')].strip()
    if not z:
        return name, off
    if z == 'Z':
        return 'UTC', 0
    head = ''.join(c for c in z if c.isalpha())
    rest = z[len(head):]
    if head:
        name = head
    if rest:
        sign = 1 if rest[0] == '+' else -1
        body = rest[1:]
        if ':' in body:
            hh, mm = [int(x) for x in body.split(':')[:2]]
        elif len(body) <= 2:
            hh, mm = int(body), 0
        else:
            hh, mm = int(body[:2]), int(body[2:4])
        off = sign * (hh * 3600 + mm * 60)
        if head:
            # 'GMT+3' reads "my time + 3 h is GMT": 3 hours behind; the zone is not the named one
            off = -off
            if head in ('GMT', 'UTC'):
                name = None
    elif head in ('UTC', 'GMT'):
        off = 0
    if off == 0 and not name:
        name = 'UTC'
    return name, off


def eval_zone(case):
    from dateutil import parser, tz
    from dateutil.parser import UnknownTimezoneWarning
    tzenv, base = case
    viols = []
    kinds = set()
    n = 0
    naive = D.datetime.strptime(base, '%Y-%m-%d %H:%M:%S')

    def fail(kind, **info):
        key = (kind, info.get('form'))
        if key not in kinds and len(viols) < 6:
            kinds.add(key)
            info.update(kind=kind, tzenv=tzenv)
            viols.append(info)
    with tz_env(tzenv):
        localnames = time.tzname
        for ztext in ZTEXTS:
            name, off = scan_zone_text(ztext)
            text = base + ztext
            for form, tzinfos in tzinfos_forms():
                for ignoretz in (False, True):
                    n += 1
                    with warnings.catch_warnings(record=True) as w:
                        warnings.simplefilter('always')
                        try:
                            got = parser.parse(text, tzinfos=tzinfos, ignoretz=ignoretz)
                        except Exception as e:
                            fail('zone-text-rejected', text=text, form=form, ignoretz=ignoretz, error=repr(e)[:100])
                            continue
                    nwarn = len([x for x in w if issubclass(x.category, UnknownTimezoneWarning)])
                    info = dict(text=text, form=form, ignoretz=ignoretz, got=got, stated=(name, off))
                    if got.replace(tzinfo=None) != naive:
                        fail('wall-time-changed', **info)
                        continue
                    if ignoretz:
                        if got.tzinfo is not None:
                            fail('ignoretz-returned-aware', **info)
                        continue
                    if name is None and off is None:
                        # no zone text: nothing to resolve.  (A callable tzinfos is still consulted by the library with
                        # (None, None); the statement speaks about resolving zone *text*, so the oracle is silent there.)
                        if got.tzinfo is not None and not callable(tzinfos):
                            fail('aware-without-zone-text', **info)
                        continue
                    # 1. tzinfos
                    if callable(tzinfos) or (tzinfos is not None and name in tzinfos):
                        val = tzinfos(name, off) if callable(tzinfos) else tzinfos[name]
                        if val is None:
                            if got.tzinfo is not None:
                                fail('tzinfos-none-not-naive', **info)
                        elif isinstance(val, D.tzinfo):
                            if got.tzinfo is not val:
                                fail('tzinfos-tzinfo-not-used', **info)
                        elif isinstance(val, int):
                            if got.tzinfo is None or got.utcoffset().total_seconds() != val:
                                fail('tzinfos-int-offset-wrong', **info)
                        else:
                            z = tz.tzstr(val)
                            cands = [naive.replace(tzinfo=z, fold=f) for f in (0, 1)]
                            named = [c for c in cands if c.tzname() == name] or cands      # an ambiguous wall time takes the named reading
                            if got.tzinfo is None or got.utcoffset() not in [c.utcoffset() for c in named]:
                                fail('tzinfos-tzstring-wrong', **info)
                        continue
                    # 2. local zone names
                    if name and name in localnames:
                        if got.tzinfo is None:
                            fail('local-name-not-resolved', **info)
                            continue
                        loc = tz.tzlocal()
                        cands = set((naive.replace(tzinfo=loc, fold=f).utcoffset(), naive.replace(tzinfo=loc, fold=f).tzname())
                                    for f in (0, 1))
                        named = [c for c in cands if c[1] == name]
                        if named:
                            ok = (got.utcoffset(), got.tzname()) in named
                        elif name in ('UTC', 'GMT', 'Z'):
                            ok = got.utcoffset() == D.timedelta(0)      # a UTC designator that is not in force locally is UTC
                        else:
                            ok = (got.utcoffset(), got.tzname()) in cands
                        if not ok:
                            fail('local-name-wrong-offset', local=sorted(map(str, cands)), **info)
                        continue
                    # 3. UTC designators and zero offsets
                    if off == 0:
                        if got.tzinfo is not tz.UTC and not (got.tzinfo is not None and got.utcoffset() == D.timedelta(0)):
                            fail('zero-offset-not-utc', **info)
                        elif got.tzinfo is not tz.UTC:
                            fail('zero-offset-not-the-UTC-object', **info)
                        continue
                    # 4. numeric offsets
                    if off is not None:
                        if got.tzinfo is None or got.utcoffset().total_seconds() != off:
                            fail('numeric-offset-wrong', **info)
                        elif name and got.tzname() != name:
                            fail('offset-zone-name-lost', **info)
                        continue
                    # 5. unresolvable abbreviation
                    if got.tzinfo is not None:
                        fail('unknown-abbreviation-resolved', **info)
                    elif nwarn != 1:
                        fail('unknown-abbreviation-warning-count', warnings=nwarn, **info)
    return Res(trans=n, viols=viols, sample={'tzenv': tzenv, 'base': base, 'texts': len(ZTEXTS), 'localnames': list(localnames)})


# ---------------------------------------------------------------- fuzzy
FILLERS = [('Today is ', ''), ('', ' was the meeting'), ('The meeting was held ', ' in Berlin!'), ('<< ', ' >>'),
           ('Reminder: ', ', see you there.'), ('Gate 40b: ', '')]     # a number glued to a letter is not a date part
FUZZY_TEMPLATES = ['iso_T_us', 'iso_sp_s', 'iso_sp_m', 'iso_date', 'ctime', 'rfc2822', 'mon_d_y', 'month_d_comma_y',
                   'month_d_comma_y_time', 'd_mon_y', 'd-mon-y', 'wdf_month_d_y_time12', 'iso_time12', 'iso_hms', 'us_slash_time',
                   'eu_dot', 'compactT6']
FUZZY_DT = [D.datetime(2003, 9, 25, 10, 36, 28, 120000), D.datetime(2024, 2, 29, 23, 59, 59, 999999), D.datetime(1999, 12, 31, 0, 0, 0, 0),
            D.datetime(2068, 1, 1, 12, 0, 1, 1)]
DEF = D.datetime(1987, 7, 17)


def is_subsequence(small, big):
    it = iter(big)
    return all(c in it for c in small)


def eval_fuzzy(tname):
    from dateutil import parser
    warnings.simplefilter('ignore')
    f, prec, kw = R.T[tname]
    viols = []
    n = 0
    for d in FUZZY_DT:
        rend = f(d)
        exp = R.PREC[prec](d)
        for pre, post in FILLERS:
            for suffix in ('', ' +03:00'):
                if suffix and (prec == 'd' or rend[-1].isalpha() or rend[-4:].isdigit() and rend[-5] == ' '):
                    continue
                text = pre + rend + suffix + post
                n += 1
                try:
                    a = parser.parse(text, default=DEF, fuzzy=True, **kw)
                    b, toks = parser.parse(text, default=DEF, fuzzy_with_tokens=True, **kw)
                except Exception as e:
                    viols.append({'kind': 'fuzzy-rejected-sentence-with-one-date', 'text': text, 'error': repr(e)[:100]})
                    continue
                if a.replace(tzinfo=None) != exp or (a.tzinfo is None) != (not suffix):
                    viols.append({'kind': 'fuzzy-wrong-date', 'text': text, 'got': a, 'expected': exp})
                    continue
                if b != a:
                    viols.append({'kind': 'fuzzy_with_tokens-differs-from-fuzzy', 'text': text, 'got': b, 'expected': a})
                joined = ''.join(toks)
                if not isinstance(toks, tuple) or not is_subsequence(joined, text):
                    viols.append({'kind': 'tokens-not-a-subsequence-of-input', 'text': text, 'tokens': list(toks)})
                    continue
                # every filler word, in order, and nothing of the date but separators
                words = [w for w in (pre + ' ' + post).replace(',', ' ').replace('.', ' ').replace('!', ' ').replace(':', ' ').split()
                         if w.isalpha() and len(w) > 2]
                pos = 0
                for wd in words:
                    i = joined.find(wd, pos)
                    if i < 0:
                        viols.append({'kind': 'filler-word-missing-from-tokens', 'text': text, 'word': wd, 'tokens': list(toks)})
                        break
                    pos = i + len(wd)
                if any(c.isdigit() for c in joined):
                    viols.append({'kind': 'date-digits-in-skipped-tokens', 'text': text, 'tokens': list(toks)})
                # words the date itself is written with (month, weekday, AM/PM) were used, not skipped
                import re as _re
                used = [w for w in _re.findall(r'[A-Za-z]{2,}', rend)]
                if any(w in joined for w in used):
                    viols.append({'kind': 'date-digits-in-skipped-tokens', 'text': text, 'tokens': list(toks),
                                  'note': 'a word of the date appears among the skipped tokens', 'words': used})
    return Res(trans=n, viols=viols[:4], sample={'template': tname, 'example': FILLERS[2][0] + f(FUZZY_DT[0]) + FILLERS[2][1]}
               if tname in ('ctime', 'iso_time12') else None)


def eval_strict_implies_fuzzy(case):
    """every token sequence with the given prefix that is accepted without fuzzy gives the same result with fuzzy"""
    from dateutil import parser
    warnings.simplefilter('ignore')
    prefix, depth = case
    TOK = c14.TOK
    base = ''.join(TOK[i] for i in prefix)
    viols = []
    kinds = set()
    n = 0
    acc = 0
    for L in range(0, depth - len(prefix) + 1):
        for tail in itertools.product(TOK, repeat=L):
            s = base + ''.join(tail)
            n += 1
            try:
                r = parser.parse(s, default=c14.DEFAULT)
            except Exception:
                continue
            acc += 1
            try:
                off_r = r.utcoffset()
            except ValueError:
                continue
            for mode in ('fuzzy', 'fuzzy_with_tokens'):
                try:
                    x = parser.parse(s, default=c14.DEFAULT, **{mode: True})
                    if mode == 'fuzzy_with_tokens':
                        x = x[0]
                except Exception as e:
                    x = 'EXC:' + type(e).__name__
                if x != r:
                    nmark = sum(s.lower().count(m) for m in ('am', 'pm', 'a.m.', 'p.m.'))
                    key = (mode, nmark >= 2)
                    if key not in kinds and len(viols) < 4:
                        kinds.add(key)
                        viols.append({'kind': 'fuzzy-differs-from-strict', 'mode': mode, 'text': s, 'strict': r, 'fuzzy': x,
                                      'two_ampm_markers': nmark >= 2})
    return Res(trans=n, viols=viols, extra={'accepted_strict': acc})


def signature(case, detail):
    return {'kind': detail.get('kind'), 'two_ampm_markers': detail.get('two_ampm_markers'), 'form': detail.get('form')}


def replay(part, case):
    if part == 'defaults':
        return eval_defaults(case).viols
    if part == 'zones':
        return eval_zone(tuple(case)).viols
    if part == 'fuzzy':
        return eval_fuzzy(case).viols
    return eval_strict_implies_fuzzy((tuple(case[0]), case[1])).viols


def run(ctx):
    ctx.explore('defaults', DEFAULTS, 'eval_defaults', chunk=1)
    ctx.explore('zones', [(e, b) for e in TZENVS for b in BASES], 'eval_zone', chunk=1)
    ctx.explore('fuzzy', FUZZY_TEMPLATES, 'eval_fuzzy', chunk=1)
    depth = ctx.pick(3, 4)
    n = len(c14.TOK)
    if depth == 3:
        cases = [((), 0)] + [((i,), 1) for i in range(n)] + [((i, j), 3) for i in range(n) for j in range(n)]
    else:
        cases = [((), 0)] + [((i,), 1) for i in range(n)] + [((i, j), 2) for i in range(n) for j in range(n)] + \
                [((i, j, k), 4) for i in range(n) for j in range(n) for k in range(n)]
    ctx.explore('strict-implies-fuzzy', cases, 'eval_strict_implies_fuzzy', chunk=32)
    ctx.coverage_extra.update({
        'bounds': {'partial_texts': len(PARTIALS) + len(NUMERIC_PARTIALS), 'defaults': len(DEFAULTS), 'zone_texts': len(ZTEXTS), 'tzinfos_forms': 10,
                   'tz_envs': [str(e) for e in TZENVS], 'fuzzy_templates': len(FUZZY_TEMPLATES), 'fillers': len(FILLERS),
                   'token_depth': depth},
        'accepted_strict_texts': ctx.counts['accepted_strict'],
        'rule': 'defaults: all partial texts x all defaults; zones: decision table over zone text x tzinfos form x ignoretz x process TZ x 4 base '
                'times (incl. local folds); fuzzy: renderings x fillers; strict=>fuzzy over every token sequence up to the depth',
    })
    ctx.assumptions += ['the decision table encodes the order the statement gives; local zone answers come from tz.tzlocal() (C08)']
