"""C17 -- iCalendar VTIMEZONE zones agree with the same rules given as a TZ string.

For every POSIX rule pair expressible as yearly RRULEs (M-form, times inside the
day) x {RRULE, RDATE-list} x component order x line folding x CRLF/LF: the zone
read by tzical must be indistinguishable from tzstr of the same rule at every
probe around the transitions of 1995 and 2024 (UTC side and wall side with both
folds, exists/ambiguous), also when the probes are replayed in rotating order
across its 10-entry lookup cache.  Before the first onset the first STANDARD
component applies; TZID addressing and a malformed-definition menu are checked.
"""
import datetime as D
import io
import itertools
import warnings

from mc import shape
from mc.core import Res
from props import posixmenu as pm
from refs import posix_tz_ref as pref

DELTAS = [-86400, -3601, -3600, -1, 0, 1, 1799, 3599, 3600, 3601, 7200, 86400]
VARIANTS = [dict(), dict(order=1), dict(fold=True), dict(crlf=False), dict(order=1, fold=True, crlf=False),
            dict(rdate_years=tuple(range(1990, 2031))), dict(rdate_years=tuple(range(1990, 2031)), order=1),
            dict(until='20371231T235959Z')]       # RFC 5545: UNTIL inside VTIMEZONE is a UTC time (the probes all lie before it)
YEARS = (1995, 2024)
FIRST_YEAR = 1990           # posixmenu.vtimezone writes its DTSTARTs in this year


def specs(k):
    out = []
    for sh in pm.shapes(k):
        p = pm.make_spec(sh)
        if not pm.ordinary(p):
            continue
        if not (p.srule[0] == 'M' and p.erule[0] == 'M' and (p.stime or 0) < 86400 and (p.etime or 0) < 86400):
            continue
        out.append(sh)
    return out


def describe(z, dt):
    return (dt.replace(tzinfo=z).utcoffset(), dt.replace(tzinfo=z).tzname(), dt.replace(tzinfo=z).dst())


def eval_spec(arg):
    from dateutil import tz
    warnings.simplefilter('ignore')
    sh, vi = arg
    var = VARIANTS[vi]
    p = pm.make_spec(sh)
    s = pm.spec_string(p)
    text = pm.vtimezone(p, **var)
    viols = []
    kinds = set()

    def fail(kind, **info):
        if kind not in kinds and len(viols) < 4:
            kinds.add(kind)
            info.update(kind=kind, string=s, variant=var)
            viols.append(info)
    try:
        zi = tz.tzical(io.StringIO(text)).get()
    except Exception as e:
        return Res(viols=[{'kind': 'valid-definition-rejected', 'string': s, 'variant': var, 'error': repr(e)[:150]}])
    if p.stdoff % 60 or p.dstoff % 60:
        zs = pm.tzrange_for(p)            # a TZ string cannot state seconds; the equivalent tzrange can
    else:
        zs = tz.tzstr(s)
    UTC = tz.UTC
    n = 0
    walls = []
    # the definition's first year: DTSTART itself is an onset (also of a component that lists RDATEs), so from the
    # earlier of the two DTSTARTs on the zone already follows the rules
    # Only the later of the two is probed: what precedes the very first onset is "the first STANDARD component", so
    # whether that onset is a fold or a gap is not something the two zones have to agree on.
    for year in (FIRST_YEAR,) + YEARS:
        for t in (p.trans_utc(year) if year != FIRST_YEAR else (max(p.trans_utc(year)),)):
            for dl in DELTAS:
                u = (t + D.timedelta(seconds=dl)).replace(tzinfo=UTC)
                n += 1
                try:
                    a, b = u.astimezone(zi), u.astimezone(zs)
                except Exception as e:
                    fail('conversion-exception', utc=u.replace(tzinfo=None), error=repr(e)[:100])
                    continue
                ga = (a.replace(tzinfo=None), a.fold, a.utcoffset(), a.tzname(), a.dst())
                gb = (b.replace(tzinfo=None), b.fold, b.utcoffset(), b.tzname(), b.dst())
                exp = p.at(u.replace(tzinfo=None))
                if ga != gb:
                    fail('differs-from-tzstr-at-instant', utc=u.replace(tzinfo=None), got=ga, expected=gb)
                if a.utcoffset() is None or (a.utcoffset().total_seconds(), a.tzname()) != exp[:2]:
                    fail('differs-from-posix-reference', utc=u.replace(tzinfo=None), got=ga[2:4], expected=exp)
                if a.astimezone(UTC) != u:
                    fail('round-trip-lost', utc=u.replace(tzinfo=None), wall=ga[0], fold=ga[1])
                w = a.replace(tzinfo=None)
                walls.append(w)
                walls.append(b.replace(tzinfo=None) + D.timedelta(seconds=1800))
    # wall side: both folds, exists / ambiguous
    walls = sorted(set(walls))
    first = {}
    for w in walls:
        for f in (0, 1):
            n += 1
            wf = w.replace(fold=f)
            x, y = describe(zi, wf), describe(zs, wf)
            first[(w, f)] = x
            if x != y:
                fail('wall-time-differs-from-tzstr', wall=w, fold=f, got=x, expected=y)
        if tz.datetime_ambiguous(w, zi) != tz.datetime_ambiguous(w, zs):
            fail('datetime_ambiguous-differs', wall=w, got=tz.datetime_ambiguous(w, zi))
        if tz.datetime_exists(w, zi) != tz.datetime_exists(w, zs):
            fail('datetime_exists-differs', wall=w, got=tz.datetime_exists(w, zi))
    # replay in rotating order across the 10-entry lookup cache: answers must not change
    keys = list(first)
    for rot in (1, 7, 13):
        order = keys[rot:] + keys[:rot]
        for (w, f) in order[:60]:
            n += 1
            x = describe(zi, w.replace(fold=f))
            if x != first[(w, f)]:
                fail('answer-changes-with-query-order', wall=w, fold=f, got=x, expected=first[(w, f)])
                break
    # before the first onset: the first STANDARD component applies
    for w in (D.datetime(1989, 7, 1, 12), D.datetime(1980, 1, 1), D.datetime(1990, 1, 1, 0, 0, 1)):
        n += 1
        x = describe(zi, w)
        if (x[0].total_seconds(), x[1], x[2]) != (p.stdoff, p.std, D.timedelta(0)):
            fail('before-first-onset-not-first-standard', wall=w, got=x, expected=(p.stdoff, p.std))
    return Res(trans=n, viols=viols,
               sample={'string': s, 'variant': var, 'text': text[:400]} if vi == 2 and len(sh) == 1 and 'offsets' in sh else None)


# ---- TZID addressing and malformed definitions
def eval_misc(case):
    from dateutil import tz
    warnings.simplefilter('ignore')
    kind = case[0]
    viols = []
    p1 = pm.make_spec({})
    p2 = pm.make_spec({'offsets': (36000, 3600), 'south': True})
    if kind == 'two-zones':
        text = pm.vtimezone(p1, tzid='Zone/One') + pm.vtimezone(p2, tzid='Zone/Two')
        ic = tz.tzical(io.StringIO(text))
        if sorted(ic.keys()) != ['Zone/One', 'Zone/Two']:
            viols.append({'kind': 'tzid-keys-wrong', 'got': sorted(ic.keys())})
        try:
            ic.get()
            viols.append({'kind': 'get-without-tzid-on-two-zones-accepted'})
        except ValueError:
            pass
        for tzid, p in (('Zone/One', p1), ('Zone/Two', p2)):
            z = ic.get(tzid)
            if z is None:
                viols.append({'kind': 'tzid-not-found', 'tzid': tzid})
                continue
            for u in (D.datetime(2024, 1, 15, 12), D.datetime(2024, 7, 15, 12)):
                a = u.replace(tzinfo=tz.UTC).astimezone(z)
                if (a.utcoffset().total_seconds(), a.tzname()) != p.at(u)[:2]:
                    viols.append({'kind': 'tzid-addresses-wrong-zone', 'tzid': tzid, 'utc': u})
        if ic.get('Nope') is not None:
            viols.append({'kind': 'unknown-tzid-returned-a-zone'})
        return Res(viols=viols, trans=6)
    if kind == 'single':
        ic = tz.tzical(io.StringIO(pm.vtimezone(p1, tzid='Only')))
        if ic.get() is not ic.get('Only') or ic.get() is None:
            viols.append({'kind': 'single-zone-get-without-name'})
        return Res(viols=viols)
    if kind == 'empty-file':
        try:
            tz.tzical(io.StringIO('BEGIN:VCALENDAR\r\nEND:VCALENDAR\r\n')).get()
        except ValueError:
            return Res(outcome='ValueError')
        return Res(viols=[{'kind': 'get-on-no-zones-accepted'}])
    if kind == 'negative-saving-wall':
        # A definition whose DAYLIGHT offset is the smaller one (Irish style: STANDARD IST +0100 from the last Sunday
        # of March, DAYLIGHT GMT +0000 from the last Sunday of October), both component orders.  Wall side only:
        # every wall reading around the onsets, both folds, against the pre-images under the stated rules.
        def comp(kind_, dtstart, month, offfrom, offto, name):
            return ["BEGIN:%s" % kind_, "DTSTART:%s" % dtstart, "RRULE:FREQ=YEARLY;BYMONTH=%d;BYDAY=-1SU" % month,
                    "TZOFFSETFROM:%s" % offfrom, "TZOFFSETTO:%s" % offto, "TZNAME:%s" % name, "END:%s" % kind_]
        a = comp("STANDARD", "19900325T010000", 3, "+0000", "+0100", "IST")
        b = comp("DAYLIGHT", "19901028T020000", 10, "+0100", "+0000", "GMT")
        comps = a + b if case[1] == 0 else b + a
        text = "\r\n".join(["BEGIN:VTIMEZONE", "TZID:Test/Eire"] + comps + ["END:VTIMEZONE"]) + "\r\n"
        z = tz.tzical(io.StringIO(text)).get()

        def lastsun(y, m):
            d = D.date(y, m, 31)
            while d.weekday() != 6:
                d -= D.timedelta(1)
            return D.datetime.combine(d, D.time(1))         # both onsets are at 01:00 UTC

        def ref(u):
            return (3600, 'IST') if lastsun(u.year, 3) <= u < lastsun(u.year, 10) else (0, 'GMT')
        n = 0
        kinds = set()
        for y in (1995, 2021):
            for m in (3, 10):
                t0 = lastsun(y, m)
                for i in range(-16, 17):
                    w = t0 + D.timedelta(minutes=15 * i)
                    pre = sorted(w - D.timedelta(seconds=o) for o in (0, 3600) if ref(w - D.timedelta(seconds=o))[0] == o)
                    n += 1
                    # datetime_exists is not asked here: it goes through fromutc, which is wrong for such zones on the
                    # pinned tree (DESIGN 7.2, open item) - the UTC side needs its own recorded finding first
                    got = tz.datetime_ambiguous(w, z)
                    if got != (len(pre) == 2) and 'exists-ambiguous' not in kinds:
                        kinds.add('exists-ambiguous')
                        viols.append({'kind': 'negative-saving-ambiguous-wrong', 'order': case[1], 'wall': w,
                                      'got': got, 'preimages': len(pre)})
                    if not pre:
                        continue
                    for f in (0, 1):
                        u = pre[min(f, len(pre) - 1)]
                        x = w.replace(tzinfo=z, fold=f)
                        n += 1
                        if (x.utcoffset().total_seconds(), x.tzname()) != ref(u) and ('wall', f) not in kinds:
                            kinds.add(('wall', f))
                            viols.append({'kind': 'negative-saving-wall-reading-wrong', 'order': case[1], 'wall': w, 'fold': f,
                                          'got': (x.utcoffset().total_seconds(), x.tzname()), 'expected': ref(u)})
        return Res(viols=viols, trans=n)
    # malformed
    name, text = case[1], case[2]
    try:
        z = tz.tzical(io.StringIO(text)).get()
    except ValueError:
        return Res(outcome='ValueError')
    except Exception as e:
        return Res(viols=[{'kind': 'malformed-wrong-exception', 'name': name, 'error': repr(e)[:120]}])
    return Res(viols=[{'kind': 'malformed-accepted', 'name': name}])


def malformed_menu():
    good = pm.vtimezone(pm.make_spec({})).split('\r\n')

    def without(prefix, count=1):
        out = []
        c = 0
        for ln in good:
            if ln.startswith(prefix) and c < count:
                c += 1
                continue
            out.append(ln)
        return '\r\n'.join(out)
    def without_nth(prefix, nth):
        out = []
        c = 0
        for ln in good:
            if ln.startswith(prefix):
                c += 1
                if c == nth:
                    continue
            out.append(ln)
        return '\r\n'.join(out)
    later = [('no-%s-in-component-%d' % (pfx.lower(), nth), without_nth(pfx, nth))
             for pfx in ('DTSTART', 'TZOFFSETFROM', 'TZOFFSETTO') for nth in (1, 2)]
    m = [('no-tzid', without('TZID')), ('no-dtstart', without('DTSTART')), ('no-offsetfrom', without('TZOFFSETFROM')),
         ('no-offsetto', without('TZOFFSETTO')), ('unclosed-component', without('END:DAYLIGHT')),
         ('unknown-component', '\r\n'.join(good).replace('BEGIN:DAYLIGHT', 'BEGIN:TWILIGHT').replace('END:DAYLIGHT', 'END:TWILIGHT')),
         ('no-components', 'BEGIN:VTIMEZONE\r\nTZID:X\r\nEND:VTIMEZONE\r\n'),
         ('bad-offset', '\r\n'.join(good).replace('TZOFFSETTO:-0400', 'TZOFFSETTO:-4')),
         ('empty-offset', '\r\n'.join(good).replace('TZOFFSETTO:-0400', 'TZOFFSETTO:')),
         ('mismatched-end', '\r\n'.join(good).replace('END:DAYLIGHT', 'END:STANDARD', 1)),
         ('dtstart-with-tzid', '\r\n'.join(good).replace('DTSTART:', 'DTSTART;TZID=Foo:', 1))]
    # not in the menu: an unknown *property* (FOO:BAR) or an extra parameter on TZID -- RFC 5545 allows iana/x-
    # properties and parameters there, the statement lists neither as malformed, so either answer is acceptable
    # several zones in one text, a later one without TZID
    p2 = pm.make_spec({'offsets': (36000, 3600), 'south': True})
    second = [ln for ln in pm.vtimezone(p2, tzid='Zone/Two').split('\r\n') if not ln.startswith('TZID')]
    multi = [('second-zone-without-tzid', pm.vtimezone(pm.make_spec({}), tzid='Zone/One') + '\r\n'.join(second)),
             ('first-zone-without-tzid', '\r\n'.join(second) + pm.vtimezone(pm.make_spec({}), tzid='Zone/One'))]
    return [('malformed', n, t) for n, t in m + later + multi]


def signature(case, detail):
    return {'kind': detail.get('kind'), 'name': detail.get('name')}


def replay(part, case):
    if part == 'specs':
        return eval_spec((case[0], case[1])).viols
    return eval_misc(tuple(case)).viols


def run(ctx):
    pref.selftest()
    k = ctx.pick(2, 4)
    shs = specs(k)
    cs = [(sh, vi) for sh in shs for vi in range(len(VARIANTS))]
    # offsets with seconds (six-digit TZOFFSETFROM/TO), both signs, also across zero
    for offs in ((-5850, 3600), (2670, 3600), (-59, 1800), (-16202, 3600), (45296, 1799)):
        for extra in ({}, {'south': True}, {'srule': ('M', 3, 5, 0)}):
            sh = dict(extra)
            sh['offsets'] = offs
            cs += [(sh, vi) for vi in (0, 1, 2, 5)]
    ctx.explore('specs', cs, 'eval_spec', chunk=8)
    misc = [('two-zones',), ('single',), ('empty-file',), ('negative-saving-wall', 0), ('negative-saving-wall', 1)] + malformed_menu()
    ctx.explore('tzid-and-malformed', misc, 'eval_misc', serial=True)
    ctx.coverage_extra.update({
        'bounds': {'deviation_bound_k': k, 'rule_specs': len(shs), 'variants': len(VARIANTS), 'years': [FIRST_YEAR] + list(YEARS)},
        'rule': 'rule specs (M-form, times inside the day) with <= k deviations x 8 text variants; UTC-side probes around 5 transitions (in the first year of the definition the second onset only), '
                'wall-side probes with both folds, 3 rotated replays across the lookup cache, 3 instants before the first onset; '
                'one negative-saving definition (STANDARD +0100 / DAYLIGHT +0000) in both component orders, wall side only: 33 wall readings x 4 onsets x both folds against the pre-images under its rules',
    })
    ctx.assumptions += ['tzstr of the same rule is the comparison zone and refs/posix_tz_ref.py the independent reference for it']
