"""C13 -- rrulestr and str(rrule) are inverse; RFC text means the same as keywords.

Parts:
  roundtrip  C01's rule space (naive starts) : rrulestr(str(r)) has r's occurrences and start
  spellings  rules x RFC spellings (deviation-bounded over spelling features) vs keyword construction
  sets       multi-line RRULE/RDATE/EXRULE/EXDATE texts vs hand-built rruleset
  malformed  menu of broken texts -> ValueError
"""
import calendar
import collections
import datetime as D
import itertools
import warnings

from mc import shape, seams, zones
from mc.core import Res, Capped, with_alarm
from props import rules, c01
from refs import rrule_ref

N_OCC = 12
WD = ['MO', 'TU', 'WE', 'TH', 'FR', 'SA', 'SU']


# ---------------------------------------------------------------- helpers
def take(r, horizon, n=N_OCC, budget=3000, cached=False):
    """first n occurrences of an implementation rule/set not later than horizon (prefix if capped)"""
    seams.install_period_budget()
    seams.rrule_horizon(horizon.year + 1)
    out = []

    def body():
        try:
            for x in r:
                if x.replace(tzinfo=None) > horizon or len(out) >= n:
                    break
                out.append(x)
        except (seams.Budget, seams.PastHorizon):
            return 'ok'
        except ValueError:
            return 'ValueError'
        except Exception as e:
            return 'EXC:%s:%s' % (type(e).__name__, str(e)[:60])
        return 'ok'
    # a cached rule legitimately fills its cache beyond the horizon: no period cut-off there
    # and a set primes every member generator before its first yield
    cached = cached or type(r).__name__ == 'rruleset'
    seams.set_budget(None if cached else budget, None if cached else horizon.toordinal())
    try:
        return with_alarm(10.0, body), out
    except (Capped, seams.Budget, seams.PastHorizon):
        return 'ok', out
    finally:
        seams.set_budget(None)


def build_kw(case):
    """keyword-built implementation rule for a case -> (status, rule-or-None, dtstart, term)"""
    from dateutil.rrule import rrule
    dtstart = rules.start_value(case)
    kw = rules.impl_kwargs(case, dtstart)
    term = {}
    if case.get('term') is not None:
        horizon = rules.horizon_for(case)
        base = None
        if case['term'][0] == 'until':
            base = rrule_ref.Spec(**rules.ref_kwargs(case, dtstart)).occurrences(horizon, 8)
        term = rules.resolve_term(case, dtstart, base)
    kw.update(term)
    freq = kw.pop('freq')
    try:
        return 'ok', rrule(freq, **kw), dtstart, term
    except ValueError:
        return 'ValueError', None, dtstart, term


# ---------------------------------------------------------------- part A: round trip
def eval_roundtrip(case):
    from dateutil.rrule import rrulestr
    warnings.simplefilter('ignore')
    st, r, dtstart, term = build_kw(case)
    if r is None:
        return Res(outcome='ctor-valueerror', nontrivial=False)
    horizon = rules.horizon_for(case)
    s1, a = take(r, horizon)
    viols = []
    try:
        text = str(r)
    except Exception as e:
        return Res(viols=[{'kind': 'str-exception', 'error': repr(e)}])
    try:
        r2 = rrulestr(text)
    except Exception as e:
        return Res(viols=[{'kind': 'rrulestr-rejects-own-str', 'text': text, 'error': repr(e)[:200]}])
    s2, b = take(r2, horizon)
    if (s1, a) != (s2, b):
        viols.append({'kind': 'roundtrip-occurrences-differ', 'text': text, 'got': b[:4], 'expected': a[:4],
                      'status': [s1, s2]})
    elif getattr(r2, '_dtstart', None) != getattr(r, '_dtstart', None):
        viols.append({'kind': 'roundtrip-start-differs', 'text': text})
    else:
        # printing is repeatable and leaves the rule usable (the text of the re-read rule is not compared: the
        # statement promises equal occurrences, not an equal spelling)
        try:
            again = str(r)
            s3, c = take(r, horizon)
        except Exception as e:
            viols.append({'kind': 'str-exception', 'text': text, 'error': 'second str()/iteration: ' + repr(e)[:150]})
        else:
            if again != text or (s3, c) != (s1, a):
                viols.append({'kind': 'roundtrip-occurrences-differ', 'text': text, 'got': c[:4], 'expected': a[:4],
                              'status': [s1, s3], 'note': 'the rule itself after str()'})
    return Res(trans=len(a) + 1, viols=viols, nontrivial=len(a) >= 2, outcome='ok' if a else 'empty',
               sample={'text': text, 'first': a[:2]} if len(case) == 4 and 'byweekday' in case and case['freq'] == 1 else None)


# ---------------------------------------------------------------- part B: spellings
SPELL = collections.OrderedDict([
    ('order', ['reversed', 'rot1', 'freq-last']),
    ('case', ['lower']),
    ('bydayname', ['BYWEEKDAY']),
    ('nth', ['nosign', 'paren']),
    ('dtstart', ['kwarg', 'kwarg+inline']),
    ('prefix', ['none']),
    ('fold', ['fold', 'fold-crlf', 'fold-param', 'fold-tab']),
    ('numsign', ['plus']),
    ('valueparm', ['VALUE=DATE-TIME']),
    ('tzids', ['mapping', 'callable']),
    ('tzidname', ['hyphen']),            # a TZID spelled with '-' and '+' (Etc/GMT-3, America/Port-au-Prince), resolved through tzids
    ('opt', ['forceset', 'compatible', 'cache', 'ignoretz', 'unfold']),
])


def fmt_dt(dt, zulu=False):
    return '%04d%02d%02dT%02d%02d%02d' % (dt.year, dt.month, dt.day, dt.hour, dt.minute, dt.second) + ('Z' if zulu else '')


def fmt_wd(x, style):
    if isinstance(x, int):
        return WD[x]
    w, n = x
    if not n:
        return WD[w]
    if style == 'paren':
        return '%s(%+d)' % (WD[w], n)
    if style == 'nosign' and n > 0:
        return '%d%s' % (n, WD[w])
    return '%+d%s' % (n, WD[w])


def fmt_list(v, plus=False):
    """plus: RFC 5545 allows an explicit '+' on the signed numbers (ordmoday, ordyrday, weeknum, setposday)"""
    f = (lambda x: '%+d' % x) if plus else str
    if isinstance(v, int):
        return f(v)
    return ','.join(f(x) for x in v)


def render(case, sp, term):
    """-> (text, kwargs for rrulestr, expected-kind) for rule `case` under spelling features `sp`"""
    parts = [('FREQ', rules.FREQNAMES[case['freq']])]
    if 'interval' in case:
        parts.append(('INTERVAL', str(case['interval'])))
    parts.append(('WKST', WD[case.get('wkst', 0)]))
    if 'count' in term:
        parts.append(('COUNT', str(term['count'])))
    if 'until' in term:
        u = term['until']
        if isinstance(u, D.datetime):
            parts.append(('UNTIL', fmt_dt(u, zulu=u.tzinfo is not None)))
        else:
            parts.append(('UNTIL', '%04d%02d%02d' % (u.year, u.month, u.day)))
    for k, name in (('bysetpos', 'BYSETPOS'), ('bymonth', 'BYMONTH'), ('bymonthday', 'BYMONTHDAY'),
                    ('byyearday', 'BYYEARDAY'), ('byweekno', 'BYWEEKNO'), ('byeaster', 'BYEASTER'),
                    ('byhour', 'BYHOUR'), ('byminute', 'BYMINUTE'), ('bysecond', 'BYSECOND')):
        if k in case:
            parts.append((name, fmt_list(case[k], plus=bool(sp.get('numsign')) and k in ('bysetpos', 'bymonthday', 'byyearday', 'byweekno'))))
    if 'byweekday' in case:
        parts.append((sp.get('bydayname', 'BYDAY'),
                      ','.join(fmt_wd(x, sp.get('nth')) for x in rules.wd_list(case['byweekday']))))
    order = sp.get('order')
    if order == 'reversed':
        parts.reverse()
    elif order == 'rot1':
        parts = parts[1:] + parts[:1]
    elif order == 'freq-last':
        parts = parts[1:] + parts[:1] if len(parts) > 1 else parts
        parts.sort(key=lambda p: p[0] == 'FREQ')
    body = ';'.join('%s=%s' % p for p in parts)
    line = body if sp.get('prefix') == 'none' else 'RRULE:' + body
    kw = {}
    kind = case.get('kind')
    st = case['start']
    dtmode = sp.get('dtstart', 'inline')
    tzid_name = 'Etc-Test/New-York+1' if sp.get('tzidname') else rules.TZFILE_NAME
    lines = []
    if dtmode in ('inline', 'kwarg+inline'):
        vp = (';' + sp['valueparm']) if sp.get('valueparm') else ''
        if kind == 'utc':
            lines.append('DTSTART%s:%s' % (vp, fmt_dt(st, zulu=True)))
        elif kind == 'tzfile':
            lines.append('DTSTART;TZID=%s%s:%s' % (tzid_name, vp, fmt_dt(st)))
        elif kind == 'date':
            lines.append('DTSTART;VALUE=DATE:%04d%02d%02d' % (st.year, st.month, st.day))
        else:
            lines.append('DTSTART%s:%s' % (vp, fmt_dt(st)))
    if dtmode in ('kwarg', 'kwarg+inline'):
        v = rules.start_value(case)
        if dtmode == 'kwarg+inline':
            v = v.replace(year=1971) if isinstance(v, D.datetime) else v.replace(year=1971)   # must be overridden by the text
        kw['dtstart'] = v
    if kind == 'tzfile' and (sp.get('tzids') or sp.get('tzidname')) and dtmode != 'kwarg':
        z = zones.build(('gettz', rules.TZFILE_NAME))
        if sp.get('tzids', 'mapping') == 'mapping':
            kw['tzids'] = {tzid_name: z}
        else:
            kw['tzids'] = lambda name, _z=z: _z if name == tzid_name else None
    lines.append(line)
    multi = len(lines) > 1
    if sp.get('case') == 'lower':
        # letter case of the rule parts (TZID values are case-sensitive text and stay as they are)
        lines = [ln if ln.lstrip().startswith('DTSTART') else ln.lower() for ln in lines]
    fold = sp.get('fold')
    if fold:
        # RFC 5545 folding: a line break followed by one space may be inserted anywhere
        folded = []
        for ln in lines:
            if len(ln) > 12:
                if fold == 'fold-param' or ':' not in ln:
                    cut = len(ln) // 2             # may fall inside a property parameter (e.g. the TZID value)
                else:
                    cut = min(len(ln) - 2, ln.index(':') + 4)   # inside the value
                folded.append(ln[:cut])
                folded.append(('\t' if fold == 'fold-tab' else ' ') + ln[cut:])      # RFC 5545 3.1: SPACE or HTAB
            else:
                folded.append(ln)
        lines = folded
        kw['unfold'] = True
    text = ('\r\n' if fold == 'fold-crlf' else '\n').join(lines)
    opt = sp.get('opt')
    if opt:
        kw[opt] = True
    if sp.get('prefix') == 'none' and (multi or opt in ('forceset', 'compatible')):
        # a bare rule (no RRULE: name) is only defined as the single line of the input
        return None
    return text, kw


def eval_spelling(arg):
    from dateutil.rrule import rrulestr, rruleset, rrule
    warnings.simplefilter('ignore')
    case, sp = arg
    st, r, dtstart, term = build_kw(case)
    if r is None:
        return Res(outcome='ctor-valueerror', nontrivial=False)
    rend = render(case, sp, term)
    if rend is None:
        return Res(outcome='not-applicable', nontrivial=False)
    text, kw = rend
    horizon = rules.horizon_for(case)
    s1, a = take(r, horizon)
    opt = sp.get('opt')
    if opt == 'ignoretz':
        if sp.get('dtstart') == 'kwarg' and case.get('kind') in ('utc', 'tzfile'):
            # ignoretz concerns zones *in the parsed text*; an aware dtstart= argument is not text
            return Res(outcome='not-applicable', nontrivial=False)
        a = [x.replace(tzinfo=None) for x in a]
        until = term.get('until')
        if isinstance(until, D.datetime) and until.tzinfo is not None:
            # the keyword rule equivalent under ignoretz has a naive start and a naive UNTIL reading
            case2 = dict(case)
            return Res(outcome='ignoretz-until-skipped', nontrivial=False)
    if opt == 'compatible':
        # documented: forceset + unfold, and dtstart is added as an RDATE
        d0 = dtstart if isinstance(dtstart, D.datetime) else D.datetime(dtstart.year, dtstart.month, dtstart.day)
        d0 = d0.replace(microsecond=0)
        merged = sorted(set(a) | ({d0} if d0.replace(tzinfo=None) <= horizon else set()))
        a = merged[:N_OCC] if len(a) < N_OCC or d0 <= a[-1] else a
    viols = []
    try:
        r2 = rrulestr(text, **kw)
    except Exception as e:
        return Res(viols=[{'kind': 'spelling-rejected', 'text': text, 'kw': sorted(kw), 'error': repr(e)[:200]}])
    if opt in ('forceset', 'compatible') and not isinstance(r2, rruleset):
        viols.append({'kind': 'forceset-not-a-set', 'text': text})
    if not opt and not isinstance(r2, rrule):
        viols.append({'kind': 'single-rule-not-an-rrule', 'text': text})
    s2, b = take(r2, horizon, cached=(opt == 'cache'))
    if (s1, a) != (s2, b):
        viols.append({'kind': 'spelling-occurrences-differ', 'text': text, 'kw': sorted(kw), 'got': b[:4],
                      'expected': a[:4], 'status': [s1, s2]})
    else:
        for x, y in zip(a, b):
            if (x.tzinfo is None) != (y.tzinfo is None) or x.utcoffset() != y.utcoffset() or x.tzname() != y.tzname():
                viols.append({'kind': 'spelling-zone-differs', 'text': text, 'got': y, 'expected': x})
                break
    return Res(trans=len(a) + 1, viols=viols, nontrivial=len(a) >= 2,
               sample={'text': text, 'options': sorted(kw)} if len(sp) == 2 and 'fold' in sp and 'byweekday' in case else None)


# ---------------------------------------------------------------- part C: sets
D0 = D.datetime(1997, 9, 2, 9, 0, 0)
SET_RULES = [
    ('FREQ=DAILY;COUNT=6', dict(freq=3, count=6)),
    ('FREQ=DAILY;INTERVAL=2;COUNT=4', dict(freq=3, interval=2, count=4)),
    ('FREQ=WEEKLY;COUNT=3;BYDAY=TU,TH', dict(freq=2, count=3, byweekday=(1, 3))),
    ('FREQ=MONTHLY;COUNT=2;BYMONTHDAY=2,-1', dict(freq=1, count=2, bymonthday=(2, -1))),
]
SET_DATES = [D0, D0 + D.timedelta(days=1), D0 + D.timedelta(days=2, seconds=1), D0 - D.timedelta(days=3),
             D0 + D.timedelta(days=40)]


def set_cases():
    """(rrule idx list, exrule idx list, rdate idx list, exdate idx list, options)"""
    R = range(len(SET_RULES))
    Dn = range(len(SET_DATES))
    out = []
    for rr in [(), (0,), (1,), (0, 2), (3, 1)]:
        for ex in [(), (1,), (2,)]:
            for rd in [(), (1,), (3, 2), (0, 4, 1)]:
                for xd in [(), (0,), (1, 2)]:
                    if not rr and not rd:
                        continue
                    for opt in [None, 'forceset', 'compatible', 'cache', 'unfold']:
                        out.append((rr, ex, rd, xd, opt))
    return out


def set_tz_cases():
    """sets whose DTSTART / RDATE / EXDATE values carry zone designators, under ignoretz / tzinfos / tzids"""
    out = []
    for dtform in ('Z', 'TZID', 'naive'):
        for rdform in ('Z', '+0200', 'naive', None):
            for xdform in ('Z', 'TZID', None):
                for opt in (None, 'ignoretz', 'forceset'):
                    for rule in (True, False):
                        if not rule and rdform is None:
                            continue
                        out.append((dtform, rdform, xdform, opt, rule))
    return out


def eval_set_tz(case):
    from dateutil.rrule import rrulestr, rruleset, rrule, DAILY
    from dateutil import tz
    warnings.simplefilter('ignore')
    dtform, rdform, xdform, opt, rule = case
    NY = zones.build(('gettz', rules.TZFILE_NAME))
    UTC = tz.UTC
    ignoretz = opt == 'ignoretz'

    def val(form, dt):
        """-> (text suffix or full line value, the datetime the keyword construction would use)"""
        if form == 'Z':
            return fmt_dt(dt) + 'Z', dt.replace(tzinfo=None if ignoretz else UTC)
        if form == '+0200':
            return fmt_dt(dt) + '+0200', dt.replace(tzinfo=None if ignoretz else tz.tzoffset(None, 7200))
        return fmt_dt(dt), dt
    lines = []
    if dtform == 'TZID':
        lines.append('DTSTART;TZID=%s:%s' % (rules.TZFILE_NAME, fmt_dt(D0)))
        start = D0.replace(tzinfo=None if ignoretz else NY)
    else:
        t, start = val(dtform, D0)
        lines.append('DTSTART:' + t)
    aware = start.tzinfo is not None
    mixed = False
    exp = rruleset()
    if rule:
        lines.append('RRULE:FREQ=DAILY;COUNT=4')
        exp.rrule(rrule(DAILY, count=4, dtstart=start))
    if rdform is not None:
        vals = [val(rdform, D0 + D.timedelta(days=9)), val(rdform, D0 + D.timedelta(days=1, hours=1))]
        lines.append('RDATE:' + ','.join(v[0] for v in vals))
        for v in vals:
            exp.rdate(v[1])
            mixed = mixed or ((v[1].tzinfo is not None) != aware and rule)
    if xdform is not None:
        if xdform == 'TZID':
            lines.append('EXDATE;TZID=%s:%s' % (rules.TZFILE_NAME, fmt_dt(D0 + D.timedelta(days=1))))
            x = (D0 + D.timedelta(days=1)).replace(tzinfo=None if ignoretz else NY)
        else:
            t, x = val(xdform, D0 + D.timedelta(days=2))
            lines.append('EXDATE:' + t)
        exp.exdate(x)
        mixed = mixed or ((x.tzinfo is not None) != aware and (rule or rdform is not None))
        if rdform is not None and not rule:
            mixed = mixed or any((v[1].tzinfo is not None) != (x.tzinfo is not None) for v in vals)
    if rdform is not None and not rule and len(set(v[1].tzinfo is not None for v in vals)) > 1:
        mixed = True
    text = '\n'.join(lines)
    kw = {opt: True} if opt else {}
    if mixed:
        return Res(outcome='mixed-naive-aware-skipped', nontrivial=False)     # comparing naive with aware instants is undefined
    try:
        expected = list(exp)
    except TypeError:
        return Res(outcome='mixed-naive-aware-skipped', nontrivial=False)
    try:
        got = list(rrulestr(text, **kw))
    except Exception as e:
        return Res(viols=[{'kind': 'set-text-rejected', 'text': text, 'options': sorted(kw), 'error': repr(e)[:160]}])
    viols = []
    if got != expected or [g.tzinfo is None for g in got] != [e.tzinfo is None for e in expected] or \
            [g.utcoffset() for g in got] != [e.utcoffset() for e in expected]:
        viols.append({'kind': 'set-occurrences-differ', 'text': text, 'options': sorted(kw), 'got': got[:5], 'expected': expected[:5]})
    return Res(trans=len(got) + 1, viols=viols, nontrivial=len(expected) >= 2,
               sample={'text': text, 'options': sorted(kw)} if case == ('TZID', 'Z', 'TZID', 'ignoretz', True) else None)


def eval_set(case):
    from dateutil.rrule import rrulestr, rruleset, rrule
    warnings.simplefilter('ignore')
    rr, ex, rd, xd, opt = case
    lines = ['DTSTART:' + fmt_dt(D0)]
    for i in rr:
        lines.append('RRULE:' + SET_RULES[i][0])
    for i in ex:
        lines.append('EXRULE:' + SET_RULES[i][0])
    if rd:
        lines.append('RDATE:' + ','.join(fmt_dt(SET_DATES[i]) for i in rd))
    for i in xd:
        lines.append('EXDATE:' + fmt_dt(SET_DATES[i]))
    text = '\n'.join(lines)
    kw = {opt: True} if opt else {}
    # expected by plain set algebra on the keyword-built members' listings
    def occ(i):
        return list(rrule(dtstart=D0, **SET_RULES[i][1]))
    inc = set()
    for i in rr:
        inc.update(occ(i))
    inc.update(SET_DATES[i] for i in rd)
    if opt == 'compatible':
        inc.add(D0)
    exc = set()
    for i in ex:
        exc.update(occ(i))
    exc.update(SET_DATES[i] for i in xd)
    expected = sorted(inc - exc)
    viols = []
    try:
        r2 = rrulestr(text, **kw)
    except Exception as e:
        return Res(viols=[{'kind': 'set-text-rejected', 'text': text, 'error': repr(e)[:200]}])
    must_be_set = bool(opt in ('forceset', 'compatible') or len(rr) > 1 or rd or ex or xd)
    if must_be_set and not isinstance(r2, rruleset):
        viols.append({'kind': 'set-expected', 'text': text})
    try:
        got = with_alarm(10.0, list, r2)
    except Capped:
        return Res(capped=True, outcome='capped')
    except Exception as e:
        return Res(viols=[{'kind': 'set-iteration-exception', 'text': text, 'error': repr(e)[:200]}])
    if got != expected:
        viols.append({'kind': 'set-occurrences-differ', 'text': text, 'options': sorted(kw), 'got': got[:5], 'expected': expected[:5],
                      'n_got': len(got), 'n_expected': len(expected)})
    return Res(trans=len(got) + 1, viols=viols, nontrivial=len(expected) >= 2,
               sample={'text': text, 'n': len(expected)} if case[:4] == ((0, 2), (1,), (1,), (0,)) else None)


# ---------------------------------------------------------------- part D: malformed
MALFORMED = [
    'FREQ=FOO;COUNT=3',
    'RRULE:FREQ=DAILY;FOO=1',
    'RRULE:FREQ=DAILY;COUNT=4;X-FOO=1',
    'FREQ=DAILY;x-bar=2;COUNT=4',
    'RRULE:FREQ=DAILY;BYDAY=',
    'RRULE:FREQ=DAILY;BYDAY=XX',
    'RRULE:FREQ=DAILY;BYDAY=+1',
    'RRULE:FREQ=DAILY;COUNT=x',
    'RRULE:FREQ=DAILY;BYMONTH=1,,2',
    'RRULE:FREQ=DAILY;UNTIL=notadate',
    'RRULE:FREQ=DAILY;WKST=XX',
    'RRULE:FREQ=DAILY;INTERVAL',
    'FOO:FREQ=DAILY',
    '',
    '   ',
    'DTSTART:19970902T090000\nFOO:BAR',
    'DTSTART;VALUE=DATE-TIME;VALUE=DATE-TIME:19970902T090000\nRRULE:FREQ=DAILY;COUNT=2',
    'DTSTART;FOO=BAR:19970902T090000\nRRULE:FREQ=DAILY;COUNT=2',
    'DTSTART:19970902T090000,19970903T090000\nRRULE:FREQ=DAILY;COUNT=2',
    'DTSTART:19970902T090000\nRRULE;X=Y:FREQ=DAILY;COUNT=2',
    'DTSTART:19970902T090000\nRRULE:FREQ=DAILY;COUNT=2\nRDATE;VALUE=FOO:19970903T090000',
    'DTSTART:19970902T090000\nRRULE:FREQ=DAILY;COUNT=2\nEXRULE;X=Y:FREQ=DAILY;COUNT=1',
    'DTSTART;TZID=America/New_York:19970902T090000Z\nRRULE:FREQ=DAILY;COUNT=2',
    'RRULE:COUNT=3',                      # FREQ is the one required part
    'COUNT=3;BYDAY=MO',
    'RRULE:FREQ=DAILY;BYSETPOS=0',
    'RRULE:FREQ=DAILY;BYSETPOS=400',
    'DTSTART:19970902T090000Z\nRRULE:FREQ=DAILY;UNTIL=19971224T000000',
]


def eval_malformed(text):
    from dateutil.rrule import rrulestr
    warnings.simplefilter('ignore')
    try:
        r = rrulestr(text, dtstart=D0) if 'DTSTART' not in text else rrulestr(text)
    except ValueError:
        return Res(outcome='ValueError')
    except Exception as e:
        return Res(viols=[{'kind': 'malformed-wrong-exception', 'text': text, 'error': repr(e)[:200]}])
    return Res(viols=[{'kind': 'malformed-accepted', 'text': text, 'result': repr(r)[:100]}])


# ---------------------------------------------------------------- config: first weekday
def eval_firstweekday(case):
    """str()/rrulestr() round trip when calendar.firstweekday() is not Monday"""
    old = calendar.firstweekday()
    calendar.setfirstweekday(6)
    try:
        r = eval_roundtrip(case)
        for v in r.viols:
            v['config'] = 'calendar.setfirstweekday(6)'
        return r
    finally:
        calendar.setfirstweekday(old)


def signature(case, detail):
    sig = {'kind': detail.get('kind')}
    if isinstance(case, (tuple, list)) and len(case) == 2 and isinstance(case[1], dict) and isinstance(case[0], dict):
        sig['fold'] = case[1].get('fold')
        sig['start_kind'] = case[0].get('kind')
    if detail.get('config'):
        sig['config'] = detail['config']
        sig['wkst_is_monday'] = isinstance(case, dict) and case.get('wkst', 0) == 0
    return sig


def replay(part, case):
    if part.startswith('roundtrip-firstweekday'):
        return eval_firstweekday(case).viols
    if part.startswith('roundtrip'):
        return eval_roundtrip(case).viols
    if part.startswith('spell'):
        return eval_spelling(tuple(case)).viols
    if part.startswith('sets-zones'):
        return eval_set_tz(tuple(case)).viols
    if part.startswith('sets'):
        return eval_set(tuple(case)).viols
    return eval_malformed(case).viols


EARLY_STARTS = [D.datetime(1, 1, 1, 0, 0, 0), D.datetime(99, 12, 31, 23, 59, 59), D.datetime(999, 6, 15, 12, 0, 0)]


def run(ctx):
    k = ctx.pick(2, 2)
    starts = (ctx.rotate(rules.STARTS[:6], 1) + [rules.STARTS[7]]) if not ctx.thorough else rules.STARTS[:6] + [rules.STARTS[7]]
    menus_naive = collections.OrderedDict((k_, v) for k_, v in rules.MENUS.items() if k_ != 'kind')

    def rt_cases(starts, k, freqs=range(7)):
        for freq in freqs:
            for st in starts:
                for sh in shape.shapes(menus_naive, k):
                    if not c01.valid_shape(freq, sh):
                        continue
                    c = dict(sh)
                    c['freq'] = freq
                    c['start'] = st
                    yield c
    ctx.explore('roundtrip-k<=%d' % k, list(rt_cases(starts, k)), 'eval_roundtrip', chunk=48)
    ctx.explore('roundtrip-early-years', list(rt_cases(EARLY_STARTS, 1, freqs=(0, 1, 2, 3))), 'eval_roundtrip', chunk=48)
    ctx.explore('roundtrip-firstweekday-sunday', list(rt_cases(rules.STARTS[:1], 1, freqs=(0, 2, 3))),
                'eval_firstweekday', chunk=48)
    # spellings: rules with <=1 part (+ kind) x spelling deviations <= 2
    kr = ctx.pick(1, 2)
    ks = ctx.pick(2, 3)

    def rule_shapes(kr):
        out = []
        for freq in (0, 1, 2, 3, 4):
            for kind in (None, 'utc', 'tzfile', 'date'):
                for sh in shape.shapes(menus_naive, kr):
                    if not c01.valid_shape(freq, sh):
                        continue
                    c = dict(sh)
                    c['freq'] = freq
                    c['start'] = rules.STARTS[0]
                    if kind:
                        c['kind'] = kind
                    out.append(c)
        return out
    base = rule_shapes(1)
    sps = list(shape.shapes(SPELL, ks))
    sp1 = [s for s in sps if len(s) <= 1]
    sp2 = [s for s in sps if len(s) == 2]
    if not ctx.thorough:
        # quick: every rule with every <=1-deviation spelling, every <=2-deviation spelling on a rotating third of the rules
        cs = [(c, s) for c in base for s in sp1]
        cs += [(c, s) for i, c in enumerate(base) if i % 3 == ctx.seed % 3 for s in sp2]
        ctx.explore('spellings', cs, 'eval_spelling', chunk=64)
    else:
        # thorough: rules with <= 1 part x spellings with <= 3 deviations, and rules with <= 2 parts x spellings with <= 2
        # (the full product of the two deeper bounds is 53 M cases; enumerated lazily, nothing is stored per case)
        ctx.explore('spellings', ((c, s) for c in base for s in sps), 'eval_spelling', chunk=64)
        wide = [c for c in rule_shapes(2) if len([k_ for k_ in c if k_ not in ('freq', 'start', 'kind')]) == 2]
        # (with every <= 1-deviation spelling; with every 2-deviation spelling on a rotating third of them: the full
        # product is 16.6 M cases)
        ctx.explore('spellings-rules-k<=2', itertools.chain(((c, s) for c in wide for s in sp1),
                                                            ((c, s) for i, c in enumerate(wide) if i % 3 == ctx.seed % 3 for s in sp2)),
                    'eval_spelling', chunk=256)
    ctx.explore('sets', set_cases(), 'eval_set', chunk=16)
    ctx.explore('sets-zones', set_tz_cases(), 'eval_set_tz', chunk=16)
    ctx.explore('malformed', MALFORMED, 'eval_malformed', serial=True)
    ctx.coverage_extra.update({
        'bounds': {'roundtrip_k': k, 'spelling_rule_k': kr, 'spelling_deviation_k': ks, 'thorough_products': 'rules k<=1 x spellings k<=3; rules k<=2 x spellings k<=1, and x spellings k=2 on a rotating third', 'occurrences_compared': N_OCC},
        'rule': 'round trip over C01 shapes with naive starts; spellings = rule shapes x deviation-bounded spelling features; '
                'sets = product of member selections x options; non-trivial = at least 2 occurrences compared',
        'spelling_menus': {k_: v for k_, v in SPELL.items()},
    })
    ctx.assumptions += ['keyword-built rules are the oracle for text-built ones (their own correctness is C01)',
                        'dateutil.parser for DTSTART/UNTIL/RDATE values (C02)']
