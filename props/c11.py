"""C11 -- cached recurrences behave like uncached ones under any interleaving.

E2: one thread, several live iterators and queries over one cached rule; BFS over
all interleavings of next()/new-iterator/query operations with state
de-duplication.  E3: 2-3 real threads under the controlled scheduler, every
schedule at source-line granularity within a preemption bound.

Drivers: (seq)  a 6-line rrulebase subclass yielding 0..L-1 (the protocol alone),
         (rrule) rrule(DAILY, count=L, cache=True), (set) a cached rruleset.
L straddles the cache fill batch (10): 0, 1, 9, 10, 11, 12, 20, 21.
"""
import datetime as D
import itertools
import types
import warnings

from mc import history, schedule
from mc.core import Res, Capped, HarnessError, with_alarm

D0 = D.datetime(1997, 9, 2, 9, 0, 0)
LENGTHS = [0, 1, 9, 10, 11, 12, 20, 21]


# ------------------------------------------------------------------ harness objects
def bind_lock_factory(lock_factory):
    """route the library's lock allocation through the harness; returns an undo function"""
    import dateutil.rrule as RR
    real = RR._thread if hasattr(RR, '_thread') else None
    if real is None or not hasattr(real, 'allocate_lock'):
        raise HarnessError("dateutil.rrule no longer allocates its lock through `_thread.allocate_lock`")
    RR._thread = types.SimpleNamespace(allocate_lock=lock_factory)

    def undo():
        RR._thread = real
    return undo


def expected_seq(driver, L):
    if driver == 'seq':
        return list(range(L))
    if driver == 'rrule':
        return [D0 + D.timedelta(days=i) for i in range(L)]
    if driver in ('set', 'nested'):
        return [D0 + D.timedelta(days=i) for i in range(L)]
    raise ValueError(driver)


_SEQ_CLASS = {}


def make_rule(driver, L):
    import dateutil.rrule as RR
    if driver == 'seq':
        cls = _SEQ_CLASS.get('c')
        if cls is None:
            class Seq(RR.rrulebase):
                def __init__(self, n):
                    self._n = n
                    super(Seq, self).__init__(True)

                def _iter(self):
                    i = 0
                    while i < self._n:
                        yield i
                        i += 1
                    self._len = self._n
            cls = _SEQ_CLASS['c'] = Seq
        return cls(L)
    if driver == 'rrule':
        if L == 0:
            return RR.rrule(RR.DAILY, dtstart=D0, until=D0 - D.timedelta(days=1), cache=True)
        return RR.rrule(RR.DAILY, dtstart=D0, count=L, cache=True)
    if driver == 'set':
        s = RR.rruleset(cache=True)
        # two uncached members whose union is the L daily instants
        if L:
            s.rrule(RR.rrule(RR.DAILY, dtstart=D0, interval=2, count=(L + 1) // 2))
            if L // 2:
                s.rrule(RR.rrule(RR.DAILY, dtstart=D0 + D.timedelta(days=1), interval=2, count=L // 2))
            s.rdate(D0)
        return s
    if driver == 'nested':
        # a cached set whose members are cached rules themselves (one of them in both roles would exclude everything,
        # so the exclusion rule is a cached rule of its own that excludes nothing inside the range)
        s = RR.rruleset(cache=True)
        if L:
            s.rrule(RR.rrule(RR.DAILY, dtstart=D0, interval=2, count=(L + 1) // 2, cache=True))
            if L // 2:
                s.rrule(RR.rrule(RR.DAILY, dtstart=D0 + D.timedelta(days=1), interval=2, count=L // 2, cache=True))
        s.exrule(RR.rrule(RR.DAILY, dtstart=D0 + D.timedelta(hours=1), count=L + 2, cache=True))
        return s
    raise ValueError(driver)


def seq_driver_ok():
    """The 'seq' driver is a subclass written by this harness against rrulebase's private subclass protocol (a
    generator method `_iter` that records `_len` when exhausted).  If a tree changes that protocol the driver says
    nothing about the library, so it is validated sequentially first and left out (not judged) when it does not hold."""
    try:
        for n in (0, 1, 11):
            a = make_rule('seq', n)
            if list(a) != list(range(n)) or list(a) != list(range(n)) or a.count() != n:
                return False
            b = make_rule('seq', n)
            if b.count() != n or (n and b[n - 1] != n - 1):
                return False
        return True
    except Exception:
        return False


def members_of(rule):
    """cached member rules of a set (they own locks as well)"""
    out = []
    for attr in ('_rrule', '_exrule'):
        for m in getattr(rule, attr, None) or ():
            if getattr(m, '_cache', None) is not None:
                out.append(m)
    return out


def bind_locks(rule, lock_factory):
    """Every lock the object under test (and its cached members) uses becomes a model lock.  Locks allocated while
    the factory seam was installed already are; any other attribute holding a real lock -- on the instance or on a
    class of its MRO, whatever its name -- is replaced here, so that a lock created at import time binds as well.
    Returns the list of model locks; raises when there is none."""
    import _thread
    real_t = type(_thread.allocate_lock())
    found = []

    def attrs(o):
        out = dict(getattr(o, '__dict__', None) or {})
        for cls in type(o).__mro__:
            for sl in getattr(cls, '__slots__', ()) or ():
                if isinstance(sl, str) and hasattr(o, sl):
                    out.setdefault(sl, getattr(o, sl))
        return out

    def scan(obj, depth):
        for name, v in list(attrs(obj).items()):
            if isinstance(v, schedule.ModelLock):
                if not any(v is f for f in found):
                    found.append(v)
            elif isinstance(v, real_t):
                lk = lock_factory()
                setattr(obj, name, lk)
                found.append(lk)
            elif depth and type(v).__module__.startswith('dateutil') and not isinstance(v, type(rule).__mro__[-2]):
                scan(v, depth - 1)       # a private helper object of the library that may own the lock

    for obj in [rule] + members_of(rule):
        scan(obj, 2)
        for cls in type(obj).__mro__:
            for name, v in list(vars(cls).items()):
                if isinstance(v, (real_t, schedule.ModelLock)):
                    lk = lock_factory()              # a fresh one per build: nothing carries over between executions
                    setattr(cls, name, lk)
                    found.append(lk)
    if not found:
        raise HarnessError("the object under test holds no lock that the harness could bind (lock seam did not bind)")
    return found


# ------------------------------------------------------------------ E2: single thread, many iterators
class HState(object):
    def __init__(self, driver, L):
        factory = lambda: schedule.ModelLock(lambda: None)
        self.undo = bind_lock_factory(factory)
        try:
            self.rule = make_rule(driver, L)
        finally:
            self.undo()
        self.locks = bind_locks(self.rule, factory)
        self.members = members_of(self.rule)
        self.its = []          # [iterator, consumed, finished, kind]
        self.L = L


def h_ops(maxit, L, driver):
    E = expected_seq(driver, L)
    mid = E[len(E) // 2] if E else (0 if driver == 'seq' else D0)

    def ops_for(st, hist):
        ops = []
        if len(st.its) < maxit:
            ops.append(('new',))
        for i, it in enumerate(st.its):
            if not it[2]:
                ops.append(('next', i))
        ops += [('list',), ('count',), ('index', max(L - 1, 0)), ('index', L), ('index', -1), ('index', -max(L, 1)), ('slice', 1, 12),
                ('contains', mid)]
        if driver != 'seq':
            ops.append(('between', E[0] if E else D0, E[-1] if E else D0))
        return ops
    return ops_for, E


def h_step(st, op):
    r = st.rule
    try:
        k = op[0]
        if k == 'new':
            complete = bool(getattr(r, '_cache_complete', False))
            st.its.append([iter(r), 0, False, 'list' if complete else 'gen'])
            return ('ok', None)
        if k == 'next':
            it = st.its[op[1]]
            try:
                v = next(it[0])
            except StopIteration:
                it[2] = True
                return ('stop', it[1])
            it[1] += 1
            return ('ok', v)
        if k == 'list':
            return ('ok', list(r))
        if k == 'count':
            return ('ok', r.count())
        if k == 'index':
            try:
                return ('ok', r[op[1]])
            except IndexError:
                return ('IndexError',)
        if k == 'slice':
            return ('ok', r[op[1]:op[2]])
        if k == 'contains':
            return ('ok', op[1] in r)
        if k == 'between':
            return ('ok', r.between(op[1], op[2], inc=True))
    except schedule.SelfDeadlock:
        return ('exc', 'SelfDeadlock')
    except Exception as e:
        return ('exc', type(e).__name__ + ':' + str(e)[:60])
    raise ValueError(op)


def eval_history(case):
    driver, L, maxit, depth = case
    warnings.simplefilter('ignore')
    ops_for, E = h_ops(maxit, L, driver)

    def fresh():
        return HState(driver, L)

    def check(st, hist, op, ans):
        k = op[0]
        exp = None
        if k == 'next':
            it = st.its[op[1]]
            # it[1] was already advanced on success
            if ans[0] == 'ok':
                pos = it[1] - 1
                exp = ('ok', E[pos]) if pos < len(E) else ('stop', len(E))
            elif ans[0] == 'stop':
                exp = ('stop', len(E)) if it[1] == len(E) else ('ok', E[it[1]])
            else:
                exp = ('ok', '...')
        elif k == 'new':
            exp = ('ok', None)
        elif k == 'list':
            exp = ('ok', list(E))
        elif k == 'count':
            exp = ('ok', len(E))
        elif k == 'index':
            exp = ('ok', E[op[1]]) if -len(E) <= op[1] < len(E) else ('IndexError',)
        elif k == 'slice':
            exp = ('ok', E[op[1]:op[2]])
        elif k == 'contains':
            exp = ('ok', op[1] in E)
        elif k == 'between':
            exp = ('ok', [x for x in E if op[1] <= x <= op[2]])
        out = []
        if ans != exp:
            out.append({'kind': 'deadlock' if ans == ('exc', 'SelfDeadlock') else 'wrong-answer', 'op': op, 'got': ans, 'expected': exp})
        c = getattr(st.rule, '_cache', None)
        if not out and c is not None and list(c) != E[:len(c)]:
            # The memo looks wrong, but it is internal state: only an observable consequence is a violation.  Rebuild
            # the same history on a fresh object and ask for the whole sequence once more.
            st3 = fresh()
            for o in tuple(hist) + (op,):
                h_step(st3, o)
            seen = h_step(st3, ('list',))
            if seen != ('ok', list(E)):
                out.append({'kind': 'wrong-answer', 'op': ('list-after',) + tuple(op), 'got': seen, 'expected': ('ok', list(E)[:6]),
                            'cache_len': len(c)})
        return out

    def canon(st):
        r = st.rule
        # private attributes are read tolerantly: if a name disappears the canonical form only gets coarser per
        # iterator state (fewer distinct states are expanded), it never produces a verdict
        g = getattr
        return (tuple((it[1], it[2], it[3], it[1] > 0) for it in st.its), len(g(r, '_cache', None) or ()),
                bool(g(r, '_cache_complete', False)), g(r, '_len', None), tuple(bool(lk.locked()) for lk in st.locks),
                tuple((len(g(m, '_cache', None) or ()), bool(g(m, '_cache_complete', False))) for m in st.members))
    try:
        res = with_alarm(600.0, history.bfs, fresh, ops_for, h_step, check, canon, depth, 400000)
    except Capped:
        return Res(capped=True, outcome='capped')
    viols = []
    for hist, v in res.violations[:3]:
        v['history'] = list(hist)
        v['driver'] = driver
        v['L'] = L
        viols.append(v)
    return Res(trans=res.transitions, viols=viols, capped=res.truncated,
               extra={'states': res.states, 'h_max_depth': res.max_depth,
                      'distinct_answers': sum(len(x) for x in res.returns.values())},
               sample={'driver': driver, 'L': L, 'iterators': maxit, 'states': res.states, 'transitions': res.transitions,
                       'max_depth': res.max_depth})


# ------------------------------------------------------------------ E3: threads
THREAD_OPS = ['iterate', 'list', 'count', 'last', 'slice', 'contains']


def thread_body(rule, op, L, E):
    def iterate():
        out = []
        for x in rule:
            out.append(x)
        return out

    def do_list():
        return list(rule)

    def do_count():
        return rule.count()

    def last():
        try:
            return rule[L - 1] if L else rule[0]
        except IndexError:
            return 'IndexError'

    def do_slice():
        return rule[1:12]

    def contains():
        return (E[len(E) // 2] if E else 0) in rule
    return {'iterate': iterate, 'list': do_list, 'count': do_count, 'last': last, 'slice': do_slice,
            'contains': contains}[op]


def expected_result(op, L, E):
    if op in ('iterate', 'list'):
        return list(E)
    if op == 'count':
        return len(E)
    if op == 'last':
        return E[L - 1] if L else 'IndexError'
    if op == 'slice':
        return E[1:12]
    if op == 'contains':
        return bool(E)
    raise ValueError(op)


def sched_harness(driver, L, ops):
    import dateutil.rrule as RR
    E = expected_seq(driver, L)

    def make(lock_factory):
        undo = bind_lock_factory(lock_factory)
        try:
            rule = make_rule(driver, L)
        finally:
            undo()
        bind_locks(rule, lock_factory)
        return [thread_body(rule, op, L, E) for op in ops], rule

    def check(ex, rule):
        if ex.deadlock:
            return ('deadlock',)
        if ex.livelock:
            return ('livelock',)
        for e in ex.errors:
            if e is not None:
                return ('exception', type(e).__name__ + ':' + str(e)[:80])
        for op, res in zip(ops, ex.results):
            if res != expected_result(op, L, E):
                return ('wrong-sequence', op, repr(res)[:200])
        # the remembered length is internal; what can be observed is count() once everything is quiet
        try:
            n = rule.count()
        except schedule.SelfDeadlock:
            return ('blocked-after-quiescence', 'count()')
        except Exception as e:
            return ('exception', 'count() afterwards: ' + type(e).__name__)
        if n != len(E):
            return ('wrong-len', n)
        return ('ok',)
    return make, check, {RR.__file__}


def split_schedule(case, nparts=12):
    """The same exploration cut into sub-cases for several cores: the root execution, and the child prefixes dealt
    into nparts groups.  A child reached by a *free* switch (no preemption used) keeps the whole budget, so its
    subtree is as large as the root's: such children are expanded again (their own execution becomes a one-execution
    sub-case and their children join the pool), up to three levels deep.  Every prefix of the unsplit exploration is
    explored exactly once."""
    driver, L, ops, bound, max_exec = case[:5]
    make, check, files = sched_harness(driver, L, ops)
    out = [tuple(case[:5]) + ('root',)]
    pool = []
    level = [[]]
    for depth in range(3):
        nxt = []
        for prefix in level:
            st = schedule.explore(make, files, bound, check, children_only=True, verify_every=0,
                                  roots=None if not prefix else [prefix])
            if prefix:
                out.append(tuple(case[:5]) + (('single', tuple(prefix)),))
            for kid, cost in zip(st.children, st.children_cost):
                if cost == 0 and depth < 2:
                    nxt.append(kid)
                else:
                    pool.append(kid)
        level = nxt
        if not level:
            break
    pool.sort(key=len)
    for i in range(nparts):
        part = pool[i::nparts]
        if part:
            out.append(tuple(case[:5]) + (tuple(tuple(p) for p in part),))
    return out


def eval_schedule(case):
    driver, L, ops, bound, max_exec = case[:5]
    roots = case[5] if len(case) > 5 else None
    warnings.simplefilter('ignore')
    make, check, files = sched_harness(driver, L, ops)
    if roots == 'root':
        st = schedule.explore(make, files, bound, check, children_only=True)
    elif roots and roots[0] == 'single':
        st = schedule.explore(make, files, bound, check, children_only=True, roots=[list(roots[1])])
    else:
        st = schedule.explore(make, files, bound, check, max_exec=max_exec, roots=roots)
    viols = []
    for pre, choices, verdict, tail in st.failures[:2]:
        viols.append({'kind': verdict[0], 'verdict': list(verdict), 'preemptions': pre, 'schedule': choices,
                      'driver': driver, 'L': L, 'ops': list(ops), 'last_points': tail[-12:]})
    return Res(trans=st.points, viols=viols, capped=st.capped,
               outcome='ok' if not st.failures else 'fail',
               extra={'executions': st.executions, 'schedule_failures': len(st.failures),
                      'replays_checked': st.replays_checked,
                      **{'exec_preemptions_%d' % k: v for k, v in st.by_preemptions.items()}},
               sample={'driver': driver, 'L': L, 'ops': list(ops), 'bound': bound, 'executions': st.executions,
                       'points': st.points, 'outcomes': dict(st.outcomes), 'by_preemptions': dict(st.by_preemptions)})


def signature(case, detail):
    return {'kind': detail.get('kind'), 'engine': 'E3' if 'schedule' in detail else 'E2'}


def replay(part, case):
    if part.startswith('sched'):
        return eval_schedule(tuple(case[:2]) + (tuple(case[2]),) + tuple(case[3:5])).viols
    return eval_history(tuple(case)).viols


def run(ctx):
    history.selftest()
    schedule.selftest()
    seq_ok = seq_driver_ok()
    hist_cases = []
    for driver in (('seq',) if seq_ok else ()) + ('rrule', 'set'):
        for L in LENGTHS:
            if ctx.thorough:
                maxit = 4 if L <= 1 else (3 if L <= 12 else 2)
            else:
                maxit = 3 if L <= 10 else 2
                if driver != 'seq' and L > 12:
                    continue
            depth = maxit * (L + 1) + 3
            hist_cases.append((driver, L, maxit, depth))
    # cached members inside a cached set: every lock of the nest is a model lock, the state includes the members' caches
    for L in ([0, 1, 10, 11, 12] if not ctx.thorough else LENGTHS):
        maxit = 2 if not ctx.thorough or L > 12 else 3
        hist_cases.append(('nested', L, maxit, maxit * (L + 1) + 3))
    ctx.explore('history-interleavings', hist_cases, 'eval_history', chunk=1)
    sched_cases = []
    pairs = [('iterate', 'iterate'), ('iterate', 'list'), ('list', 'count'), ('iterate', 'last'), ('count', 'slice'),
             ('iterate', 'contains')]
    if not ctx.thorough:
        for driver in ('seq', 'rrule'):
            for L in [0, 1, 10, 11, 12, 21]:
                for ops in pairs:
                    if driver == 'rrule' and (L not in (1, 11) or ops not in pairs[:2]):
                        continue
                    bound = 2
                    if driver != 'seq' or L not in (1, 11) or (L == 11 and ops not in pairs[:3]):
                        bound = 1
                    sched_cases.append((driver, L, ops, bound, 150000))
        for L in (1, 11):
            for ops in pairs[:2]:
                sched_cases.append(('nested', L, ops, 1, 150000))
    else:
        # Every exploration below runs to completion (none reaches its execution cap; measured sizes in DESIGN 7.4).
        # The drivers differ by an order of magnitude in scheduling points per item (a Seq item is one line, an rrule
        # item some sixty), so the preemption bound that can be completed differs per driver and length.
        for L in LENGTHS:
            for ops in pairs:
                sched_cases.append(('seq', L, ops, 2, 400000))
                sched_cases.append(('rrule', L, ops, 2 if L <= 1 else 1, 400000))
        for L in (0, 1, 10, 11, 21):
            for ops in pairs[:3]:
                sched_cases.append(('set', L, ops, 2 if (L <= 1 and ops != pairs[2]) else 1, 400000))
        for L in (0, 1, 10, 11):
            for ops in pairs[:2]:
                sched_cases.append(('nested', L, ops, 2 if (L <= 1 and ops == pairs[0]) else 1, 400000))
        triples = [('iterate', 'iterate', 'iterate'), ('iterate', 'list', 'count')]
        for L in (0, 1, 2):
            for ops in triples:
                sched_cases.append(('seq', L, ops, 2, 400000))
            for ops in pairs[:2]:
                sched_cases.append(('seq', L, ops, 3, 400000))
        for L in (10, 11, 12):
            for ops in triples:
                sched_cases.append(('seq', L, ops, 1, 400000))
    if not seq_ok:
        # the harness's own subclass does not fit this tree: its cases are run on real rules instead (bound 1)
        sched_cases = [c if c[0] != 'seq' else ('rrule', c[1], c[2], min(c[3], 1), c[4]) for c in sched_cases if len(c[2]) == 2]
        sched_cases = sorted(set(sched_cases))
        ctx.assumptions.append('seq driver not usable on this tree (private subclass protocol changed): replaced by rrule driver at bound 1')
    sched_cases.sort(key=lambda c: (-c[3], -c[1]))       # heaviest explorations first (load balance only)
    split = []
    for c in sched_cases:
        if (c[3] >= 2 and c[1] >= 9) or (c[0] in ('nested', 'set') and c[1] >= 9) or (c[3] >= 2 and c[0] != 'seq') or \
                (len(c[2]) > 2 and c[3] >= 2) or c[3] >= 3:
            split.extend(split_schedule(c))      # the same exploration, subtree by subtree, on several cores
        else:
            split.append(c)
    sched_cases = split
    ctx.explore('schedules', sched_cases, 'eval_schedule', chunk=1)
    ctx.coverage_extra.update({
        'states': ctx.counts['states'],
        'schedules_explored': ctx.counts['executions'],
        'traces_validated_against_impl': ctx.counts['executions'] + ctx.counts['states'],
        'bounds': {'preemption_bound': 2 if not ctx.thorough else 'seq: 2 (3 for lengths 0-2); rrule/set/nested: 2 for lengths 0-1, else 1',
                   'threads': 3 if ctx.thorough else 2, 'lengths': LENGTHS,
                   'granularity': 'source line of dateutil/rrule.py + lock acquisition'},
        'rule': 'E2: BFS over all interleavings of new/next/query operations of up to 2-4 iterators, canonical state '
                '(per-iterator cursor/finished/kind/started, cache length, complete flag, known length, lock held); '
                'E3: every schedule of the thread harnesses within the preemption bound (executions = schedules run to completion)',
    })
    ctx.assumptions += ['preemption only at source-line boundaries of rrule.py and at lock acquisition; C code is atomic',
                        'lock seam: dateutil.rrule._thread.allocate_lock -> ModelLock, plus any lock-typed attribute of the object, its cached members or their classes (bind asserted per object)']
