"""C06 -- tzfile reports exactly what the TZif data says at every instant.

For every distinct TZif file of the installed database and for synthetic files
covering transition shapes absent from real data: every instant t_i + delta around
every transition, inside [t_first, t_last), must get the offset / abbreviation the
data assigns (independent decoder refs/tzif_ref.py) and dst()==0 on standard types;
before the first transition the first standard type applies.  All load paths
(gettz name, path, open stream, ZoneInfoFile archive incl. link members, pickle,
copy) must be equal and answer identically.
"""
import copy
import datetime as D
import io
import pickle
import tarfile
import warnings

from mc.core import Res
from props import tzwalk
from refs import tzif_ref

_CFG = {'thorough': False}


def worker_setup(arg):
    _CFG['thorough'] = bool(arg)


def answers(z, u):
    loc = tzwalk.utc_aware(u).astimezone(z)
    off = loc.utcoffset()
    if off is None:
        return ('naive-result', loc.tzname(), None)           # compared like any other wrong answer
    return (off.total_seconds(), loc.tzname(), loc.dst().total_seconds() if loc.dst() is not None else None)


def eval_zone(case):
    from dateutil import tz
    warnings.simplefilter('ignore')
    zone, data, label = tzwalk.load(case)
    z = tzwalk.impl_zone(case, data)
    deltas = tzwalk.thorough_deltas() if _CFG['thorough'] else tzwalk.QUICK_DELTAS
    probes = tzwalk.utc_probes(zone, deltas)
    viols = []
    n = 0
    n_in = 0
    for u in probes:
        inrange = bool(zone.times) and zone.times[0] <= u < zone.times[-1]
        before = bool(zone.times) and u < zone.times[0]
        if not (inrange or before or not zone.times):
            continue                       # after the last transition the data block is silent (DESIGN §3 C06)
        n += 1
        n_in += inrange
        off, isdst, abbr = zone.at(u)
        got = answers(z, u)
        if got[0] != off or got[1] != abbr:
            if len(viols) < 3:
                viols.append({'kind': 'wrong-offset-or-abbreviation', 'zone': label, 'utc': u,
                              'utc_time': tzif_ref.utc_dt(u), 'got': got[:2], 'expected': (off, abbr),
                              'where': 'in-range' if inrange else 'before-first'})
        elif not isdst and got[2] != 0:
            if len(viols) < 3:
                viols.append({'kind': 'dst-nonzero-on-standard-type', 'zone': label, 'utc': u, 'got': got[2]})
    # instants with a sub-second part just before / after each transition (also negative timestamps)
    for t in zone.times:
        for us, ref_u in ((-1, t - 1), (1, t), (-999999, t - 1), (999999, t)):
            if not (zone.times[0] <= ref_u < zone.times[-1]) or not (-2 ** 31 + 86400 * 2 <= t <= 2 ** 31 - 86400 * 2):
                continue
            n += 1
            off, isdst, abbr = zone.at(ref_u)
            loc = (tzwalk.utc_aware(t) + D.timedelta(microseconds=us)).astimezone(z)
            got = (loc.utcoffset().total_seconds() if loc.utcoffset() is not None else 'naive-result', loc.tzname())
            if got != (off, abbr) and len(viols) < 3:
                viols.append({'kind': 'wrong-offset-or-abbreviation', 'zone': label, 'utc': t, 'microseconds': us,
                              'got': got, 'expected': (off, abbr), 'where': 'in-range-subsecond'})
    x = tzif_ref.crosscheck_zoneinfo(case[1], zone, probes[::5]) if case[0] == 'file' else 0
    return Res(trans=n, viols=viols, nontrivial=len(zone.times) > 0,
               extra={'in_range_probes': n_in, 'transitions_walked': len(zone.times), 'reference_crosscheck_mismatch': x},
               sample={'zone': label, 'transitions': len(zone.times), 'types': len(zone.types), 'probes': n}
               if case[1] in ('Europe/Dublin', 'negdst', 'America/New_York') else None)


# ---- load paths
def build_archive(names):
    """tar.gz in memory from the installed files, with hard-link, sym-link and METADATA members"""
    corpus = dict(tzif_ref.corpus())
    buf = io.BytesIO()
    links_first = bool(names) and sum(map(ord, names[0])) % 2 == 0     # member order varies: a link may precede its target
    def add_links(tf):
        ti = tarfile.TarInfo('Alias/Sym')
        ti.type = tarfile.SYMTYPE
        ti.linkname = names[0]
        tf.addfile(ti)
        ti = tarfile.TarInfo('Alias/Hard')
        ti.type = tarfile.LNKTYPE
        ti.linkname = names[-1]
        tf.addfile(ti)
    with tarfile.open(fileobj=buf, mode='w:gz') as tf:
        if links_first:
            add_links(tf)
        for n in names:
            with open(corpus[n], 'rb') as f:
                data = f.read()
            ti = tarfile.TarInfo(n)
            ti.size = len(data)
            tf.addfile(ti, io.BytesIO(data))
        if names and not links_first:
            add_links(tf)
        meta = b'{"tzversion": "verif", "metadata_version": 2.0}'
        ti = tarfile.TarInfo('METADATA')
        ti.size = len(meta)
        tf.addfile(ti, io.BytesIO(meta))
    buf.seek(0)
    return buf


def eval_loadpaths(names):
    from dateutil import tz, zoneinfo
    warnings.simplefilter('ignore')
    names = list(names)
    corpus = dict(tzif_ref.corpus())
    viols = []
    try:
        zi = zoneinfo.ZoneInfoFile(build_archive(names))
    except Exception as e:
        return Res(viols=[{'kind': 'load-path-returned-none', 'zone': names[0] if names else None, 'path': 'archive',
                           'error': 'ZoneInfoFile could not read a well-formed archive: ' + repr(e)[:120]}])
    n = 0
    for name in names:
        path = corpus[name]
        with open(path, 'rb') as f:
            data = f.read()
        zone = tzif_ref.decode(data)
        variants = {}
        variants['path'] = tz.tzfile(path)
        with open(path, 'rb') as f:
            variants['stream'] = tz.tzfile(f)
        variants['bytesio'] = tz.tzfile(io.BytesIO(data), filename=name)
        g = tz.gettz(name)
        if g is not None:
            variants['gettz'] = g
        variants['archive'] = zi.get(name)
        if name == names[0]:
            variants['archive-symlink'] = zi.get('Alias/Sym')      # equal and behaving identically (identity is not promised)
        if name == names[-1]:
            variants['archive-hardlink'] = zi.get('Alias/Hard')
        base = variants['path']
        for proto in (2, 3, 4, 5):
            try:
                variants['pickle%d' % proto] = pickle.loads(pickle.dumps(base, proto))
            except Exception as e:
                viols.append({'kind': 'pickle-exception', 'zone': name, 'protocol': proto, 'error': repr(e)[:120]})
        if 'gettz' in variants:
            try:
                variants['pickle-gettz'] = pickle.loads(pickle.dumps(variants['gettz']))
            except Exception as e:
                viols.append({'kind': 'pickle-exception', 'zone': name, 'protocol': 'gettz', 'error': repr(e)[:120]})
        for proto in (2, 5):
            try:
                variants['pickle%d-archive' % proto] = pickle.loads(pickle.dumps(zi.get(name), proto))
            except Exception as e:
                viols.append({'kind': 'pickle-exception', 'zone': name, 'protocol': 'archive-%d' % proto, 'error': repr(e)[:120]})
        variants['copy-archive'] = copy.copy(zi.get(name))
        variants['copy'] = copy.copy(base)
        variants['deepcopy'] = copy.deepcopy(base)
        probes = tzwalk.utc_probes(zone, [-3600, -1, 0, 1, 3600])
        ref = [answers(base, u) for u in probes]
        for k, v in variants.items():
            n += 1
            if v is None:
                viols.append({'kind': 'load-path-returned-none', 'zone': name, 'path': k})
                continue
            try:
                if not (v == base and base == v) or (v != base):
                    viols.append({'kind': 'load-paths-not-equal', 'zone': name, 'path': k})
                    continue
            except Exception as e:
                viols.append({'kind': 'load-path-eq-exception', 'zone': name, 'path': k, 'error': repr(e)[:100]})
                continue
            got = [answers(v, u) for u in probes]
            if got != ref:
                i = next(i for i in range(len(ref)) if got[i] != ref[i])
                viols.append({'kind': 'load-paths-answer-differently', 'zone': name, 'path': k, 'utc': probes[i],
                              'got': got[i], 'expected': ref[i]})
    return Res(trans=n, viols=viols[:5], sample={'zones': names[:3], 'variants_checked': n})


def eval_malformed(case):
    """What happens to ill-formed streams is recorded, not judged: the statement is about well-formed TZif data only
    (an earlier version of this part demanded ValueError and was demanding more than the property states)."""
    from dateutil import tz
    name, data = case
    try:
        tz.tzfile(io.BytesIO(data), filename=name)
    except Exception as e:
        return Res(outcome='rejected:' + type(e).__name__, nontrivial=False)
    return Res(outcome='accepted', nontrivial=False)


def signature(case, detail):
    return {'kind': detail.get('kind'), 'where': detail.get('where')}


def replay(part, case):
    if part == 'load-paths':
        return eval_loadpaths(case).viols
    if part == 'malformed':
        return eval_malformed(tuple(case)).viols
    _CFG['thorough'] = part.endswith('thorough')
    return eval_zone(tuple(case)).viols


def run(ctx):
    tzif_ref.selftest()
    cases = tzwalk.zone_cases()
    ctx.explore('timeline-' + ctx.tier, cases, 'eval_zone', chunk=4, setup_arg=ctx.thorough)
    names = [n for n, p in tzif_ref.corpus()]
    if not ctx.thorough:
        names = [n for i, n in enumerate(names) if i % 4 == ctx.seed % 4 or n in ('Europe/Dublin', 'America/New_York')]
    groups = [names[i:i + 8] for i in range(0, len(names), 8)]
    ctx.explore('load-paths', groups, 'eval_loadpaths', chunk=1)
    good = tzif_ref.encode([tzif_ref.T0], [1], [(3600, 0, 'STD'), (7200, 1, 'DST')])
    mal = [('bad-magic', b'XXXX' + good[4:]), ('truncated-header', good[:30]), ('truncated-body', good[:50]),
           ('empty', b'')]
    ctx.explore('ill-formed-recorded-only', mal, 'eval_malformed', serial=True)
    ctx.coverage_extra.update({
        'states': ctx.counts['transitions_walked'] + len(cases),
        'traces_validated_against_impl': len(cases),
        'reference_crosscheck': ctx.counts['reference_crosscheck_mismatch'],
        'bounds': {'deltas': 'quick: %d offsets around each transition; thorough: +-5 s around each of them and every 7 min within +-26 h'
                   % len(tzwalk.QUICK_DELTAS), 'zones': len(cases)},
        'rule': 'one case per distinct TZif file (447) or synthetic shape; every transition x probe offsets; states = transitions walked; '
                'non-trivial = the zone has at least one transition',
    })
    ctx.assumptions += ['installed IANA database (system /usr/share/zoneinfo) is the corpus: the vendored tarball is absent from this tree',
                        'only the version-1 data block is decoded by the library and by the reference (instants 1901..2038)',
                        'reference decoder cross-checked against CPython zoneinfo (second opinion, not the oracle)']
