"""POSIX TZ rule alphabet shared by C04, C05, C08, C17 and builders for the equivalent zone objects."""
import collections
import datetime as D
import os
import time

from mc import shape
from refs.posix_tz_ref import Posix, rule_date

BASE = dict(offsets=(-18000, 3600), srule=('M', 3, 2, 0), erule=('M', 11, 1, 0), stime=None, etime=None,
            south=False, explicit=True)

MENUS = collections.OrderedDict([
    ('offsets', [(36000, 3600), (19800, 1800), (0, 7200), (-12600, 3600), (-7200, 7200)]),    # the last one: daylight offset 0, written explicitly
    ('srule', [('M', 3, 5, 0), ('M', 4, 1, 3), ('J', 60), ('J', 100), ('N', 59), ('N', 100), ('M', 3, 1, 1)]),     # d=1: Monday
    ('erule', [('M', 10, 5, 0), ('M', 9, 5, 6), ('J', 300), ('N', 300), ('J', 305), ('M', 10, 5, 1)]),
    ('stime', [7200, 0, 1800, 3600, 10800, 86400, 93600, 7230]),       # 7230 = 2:00:30 (hh:mm:ss form)
    ('etime', [7200, 0, 1800, 3600, 10800, 86400, 93600, 3661]),       # 3661 = 1:01:01
    ('south', [True]),
    ('explicit', [False]),
    # a zone whose standard time is called GMT / UTC (offset 0, so the 'GMT+h is ahead' reading does not enter)
    ('stdname', ['GMT', 'UTC']),
])

YEARS = (2023, 2024, 2025)


def make_spec(sh):
    f = dict(BASE)
    f.update(sh)
    so, sv = f['offsets']
    if not f['explicit']:
        sv = 3600                                 # POSIX default: one hour ahead of standard time
    name = f.get('stdname', 'AAA')
    if name != 'AAA':
        so = 0
    if f['south']:
        p = Posix(name, so, 'BBB', so + sv, f['erule'], f['etime'], f['srule'], f['stime'])
    else:
        p = Posix(name, so, 'BBB', so + sv, f['srule'], f['stime'], f['erule'], f['etime'])
    p.explicit = f['explicit']
    return p


def spec_string(p):
    return p.string(explicit_dst=getattr(p, 'explicit', True))


def shapes(k):
    return list(shape.shapes(MENUS, k))


def std_tod(p, which):
    """transition time of day expressed in standard time (seconds), the quantity one relativedelta must carry"""
    if which == 'start':
        return 7200 if p.stime is None else p.stime
    return (7200 if p.etime is None else p.etime) - (p.dstoff - p.stdoff)


def ordinary(p):
    return all(0 <= std_tod(p, w) < 86400 for w in ('start', 'end'))


def rule_delta(rule, seconds):
    from dateutil import relativedelta as R
    kw = {}
    if rule[0] == 'M':
        _, m, w, d = rule
        pyd = (d - 1) % 7
        kw['month'] = m
        if w == 5:
            kw['day'] = 31
            kw['weekday'] = R.weekday(pyd, -1)
        else:
            kw['day'] = 1
            kw['weekday'] = R.weekday(pyd, w)
    elif rule[0] == 'J':
        kw['nlyearday'] = rule[1]
    else:
        kw['yearday'] = rule[1] + 1
    kw['seconds'] = seconds
    return R.relativedelta(**kw)


def tzrange_for(p):
    """tzrange built from the equivalent offsets and relativedelta rules (documented convention:
    start in standard time, end pointing at the first instant of standard time)"""
    from dateutil import tz
    return tz.tzrange(p.std, p.stdoff, p.dst, p.dstoff,
                      rule_delta(p.srule, std_tod(p, 'start')), rule_delta(p.erule, std_tod(p, 'end')))


class tz_env(object):
    """process zone seam: TZ + tzset, restored afterwards"""

    def __init__(self, value):
        self.value = value

    def __enter__(self):
        self.old = os.environ.get('TZ')
        if self.value is None:
            os.environ.pop('TZ', None)
        else:
            os.environ['TZ'] = self.value
        time.tzset()
        return self

    def __exit__(self, *a):
        if self.old is None:
            os.environ.pop('TZ', None)
        else:
            os.environ['TZ'] = self.old
        time.tzset()


WDN = ['SU', 'MO', 'TU', 'WE', 'TH', 'FR', 'SA']


def _offstr(sec):
    s = '+' if sec >= 0 else '-'
    sec = abs(sec)
    if sec % 60:
        return '%s%02d%02d%02d' % (s, sec // 3600, sec % 3600 // 60, sec % 60)      # RFC 5545 utc-offset with seconds
    return '%s%02d%02d' % (s, sec // 3600, sec % 3600 // 60)


def vtimezone(p, first_year=1990, order=0, rdate_years=None, tzid='Test/Zone', crlf=True, fold=False, extra_zone=None, until=None):
    """VTIMEZONE text stating the same rules as p (M-form rules, ordinary times).
    rdate_years: write explicit RDATE onsets for these years instead of an RRULE."""
    def comp(kind, rule, t, offfrom, offto, name):
        _, m, w, d = rule
        n = -1 if w == 5 else w
        first = rule_date(first_year, rule)
        dt = D.datetime.combine(first, D.time(0)) + D.timedelta(seconds=t)
        lines = ["BEGIN:%s" % kind, "DTSTART:%s" % dt.strftime('%Y%m%dT%H%M%S')]
        if rdate_years:
            for y in rdate_years:
                if y == first_year:
                    continue
                x = D.datetime.combine(rule_date(y, rule), D.time(0)) + D.timedelta(seconds=t)
                lines.append("RDATE:%s" % x.strftime('%Y%m%dT%H%M%S'))
        else:
            lines.append("RRULE:FREQ=YEARLY;BYMONTH=%d;BYDAY=%d%s%s" % (m, n, WDN[d], (';UNTIL=' + until) if until else ''))
        lines += ["TZOFFSETFROM:%s" % _offstr(offfrom), "TZOFFSETTO:%s" % _offstr(offto), "TZNAME:%s" % name,
                  "END:%s" % kind]
        return lines
    st = 7200 if p.stime is None else p.stime
    et = 7200 if p.etime is None else p.etime
    a = comp("DAYLIGHT", p.srule, st, p.stdoff, p.dstoff, p.dst)
    b = comp("STANDARD", p.erule, et, p.dstoff, p.stdoff, p.std)
    comps = a + b if order == 0 else b + a
    lines = ["BEGIN:VTIMEZONE", "TZID:%s" % tzid] + comps + ["END:VTIMEZONE"]
    if extra_zone:
        lines += extra_zone
    if fold:
        out = []
        for ln in lines:
            if len(ln) > 14:
                out.append(ln[:9])
                out.append(' ' + ln[9:])
            else:
                out.append(ln)
        lines = out
    nl = "\r\n" if crlf else "\n"
    return nl.join(lines) + nl
