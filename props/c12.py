"""C12 -- recurrence queries agree with the listed sequence.

E2 history exploration: for each finite rule/set object (cache on/off) a BFS over
query histories; every query's answer is compared with plain list operations on
L = list(fresh uncached equal object).  Canonical state of a cached object is
(len(cache), complete flag, known length): the cache content is a prefix of L by
the invariant checked in every state, so these fields determine all futures.
Uncached objects have a single state; for them all single queries and all ordered
pairs are run (answers must not depend on which query ran before).
"""
import datetime as D
import itertools
import warnings

from mc import history
from mc.core import Res, Capped, with_alarm

D0 = D.datetime(1997, 9, 2, 9, 0, 0)
DAY = D.timedelta(days=1)
SEC = D.timedelta(seconds=1)


def make(name, cache):
    from dateutil.rrule import rrule, rruleset, DAILY, HOURLY, WEEKLY, MONTHLY, YEARLY
    if name == 'empty':
        return rrule(DAILY, dtstart=D0, until=D0 - DAY, cache=cache)
    if name == 'one':
        return rrule(DAILY, dtstart=D0, count=1, cache=cache)
    if name == 'daily5':
        return rrule(DAILY, dtstart=D0, count=5, cache=cache)
    if name == 'alt12':
        return rrule(DAILY, dtstart=D0, interval=2, until=D0 + 22 * DAY, cache=cache)
    if name == 'hourly23':
        return rrule(HOURLY, dtstart=D0, count=23, byminute=(0, 30), cache=cache)
    if name == 'monthly10':
        return rrule(MONTHLY, dtstart=D0, count=10, bymonthday=(2, -1), cache=cache)
    if name == 'setpos7':
        return rrule(MONTHLY, dtstart=D0, count=7, byweekday=(0, 1, 2, 3, 4), bysetpos=(1, -1), cache=cache)
    if name == 'setpos-until':
        return rrule(WEEKLY, dtstart=D0, until=D0 + 30 * DAY, byweekday=(1, 3, 6), bysetpos=-1, cache=cache)
    if name == 'weekly-defaults':
        return rrule(WEEKLY, dtstart=D0, count=11, interval=2, wkst=3, cache=cache)     # weekday taken from the start
    if name == 'yearly-defaults':
        return rrule(YEARLY, dtstart=D0, count=3, cache=cache)                          # month and day taken from the start
    if name == 'short-of-count':
        return rrule(YEARLY, dtstart=D.datetime(9997, 1, 1), count=5, cache=cache)      # three occurrences fit before 9999 ends
    if name == 'set':
        s = rruleset(cache=cache)
        s.rrule(rrule(DAILY, dtstart=D0, count=6))
        s.rrule(rrule(WEEKLY, dtstart=D0 + DAY, count=3))
        s.rdate(D0 + 40 * DAY)
        s.rdate(D0 + DAY + SEC)
        s.exrule(rrule(DAILY, dtstart=D0, interval=2, count=2))
        s.exdate(D0 + 8 * DAY)
        s.rdate(D0 + 9 * DAY + SEC)          # listed and excluded: not a member
        s.exdate(D0 + 9 * DAY + SEC)
        return s
    if name == 'set11':
        s = rruleset(cache=cache)
        s.rrule(rrule(DAILY, dtstart=D0, count=14))
        s.exrule(rrule(DAILY, dtstart=D0 + DAY, interval=5, count=3))
        return s
    raise ValueError(name)


OBJECTS = ['empty', 'one', 'daily5', 'alt12', 'hourly23', 'monthly10', 'setpos7', 'setpos-until', 'weekly-defaults',
           'yearly-defaults', 'short-of-count', 'set', 'set11']


def instants(L):
    if L:
        mid = L[len(L) // 2]
        extra = [D0 + 9 * DAY + SEC, D0 + 8 * DAY] if L[0].year < 9000 else []     # instants a set lists but excludes
        return [mid, mid + SEC, mid - SEC, L[0] - 100 * DAY, L[-1] + 100 * DAY, L[0], L[-1]] + extra
    return [D0, D0 + SEC, D0 - 100 * DAY, D0 + 100 * DAY]


def queries(L, thorough):
    n = len(L)
    qs = [('count',)]
    idx = sorted(set([0, 1, n - 1, n, -1, -n, -n - 1, 10, 9, 11]))
    for i in idx:
        qs.append(('index', i))
    vals = [None, 0, 1, 2, n, -1, -2] + ([10, n + 1, -n] if thorough else [])
    steps = [None, 1, 2, -1, -2, n] if thorough else [None, 1, 2, -1]
    for a in vals:
        for b in vals:
            for c in steps:
                if c == 0:
                    continue
                qs.append(('slice', a, b, c))
    T = instants(L)
    for ti, t in enumerate(T):
        qs.append(('contains', t))
        for inc in (False, True):
            qs.append(('after', t, inc))
            qs.append(('before', t, inc))
            for cnt in (None, 0, 1, 2, n + 1):
                qs.append(('xafter', t, cnt, inc))
            for u in T:
                qs.append(('between', t, u, inc))
    qs.append(('list',))
    qs.append(('iter-partial', 1))
    qs.append(('iter-partial', 11))
    return qs


def run_query(obj, q):
    """-> ('ok', value) | ('exc', type name)"""
    try:
        k = q[0]
        if k == 'count':
            return ('ok', obj.count())
        if k == 'index':
            return ('ok', obj[q[1]])
        if k == 'slice':
            return ('ok', obj[slice(q[1], q[2], q[3])])
        if k == 'contains':
            return ('ok', q[1] in obj)
        if k == 'after':
            return ('ok', obj.after(q[1], q[2]))
        if k == 'before':
            return ('ok', obj.before(q[1], q[2]))
        if k == 'xafter':
            return ('ok', list(obj.xafter(q[1], q[2], q[3])))
        if k == 'between':
            return ('ok', obj.between(q[1], q[2], q[3]))
        if k == 'list':
            return ('ok', list(obj))
        if k == 'iter-partial':
            return ('ok', list(itertools.islice(iter(obj), q[1])))
    except Exception as e:
        return ('exc', type(e).__name__)
    raise ValueError(q)


def model_query(L, q):
    k = q[0]
    if k == 'count':
        return ('ok', len(L))
    if k == 'index':
        try:
            return ('ok', L[q[1]])
        except IndexError:
            return ('exc', 'IndexError')
    if k == 'slice':
        return ('ok', L[slice(q[1], q[2], q[3])])
    if k == 'contains':
        return ('ok', q[1] in L)
    if k == 'after':
        t, inc = q[1], q[2]
        for x in L:
            if x > t or (inc and x == t):
                return ('ok', x)
        return ('ok', None)
    if k == 'before':
        t, inc = q[1], q[2]
        r = None
        for x in L:
            if x < t or (inc and x == t):
                r = x
        return ('ok', r)
    if k == 'xafter':
        t, cnt, inc = q[1], q[2], q[3]
        r = [x for x in L if x > t or (inc and x == t)]
        return ('ok', r if cnt is None else r[:cnt])
    if k == 'between':
        a, b, inc = q[1], q[2], q[3]
        if inc:
            return ('ok', [x for x in L if a <= x <= b])
        return ('ok', [x for x in L if a < x < b])
    if k == 'list':
        return ('ok', list(L))
    if k == 'iter-partial':
        return ('ok', L[:q[1]])
    raise ValueError(q)


class State(object):
    def __init__(self, name, cache):
        self.obj = make(name, cache)


def eval_object(case):
    name, cache, thorough = case
    warnings.simplefilter('ignore')
    L = list(make(name, False))
    qs = queries(L, thorough)
    viols = []
    distinct = set()

    def fresh():
        return State(name, cache)

    def step(st, q):
        return with_alarm(10.0, run_query, st.obj, q)

    def check(st, hist, q, ans):
        exp = model_query(L, q)
        out = []
        if ans != exp:
            out.append({'kind': 'query-disagrees', 'query': q, 'got': ans, 'expected': exp,
                        'after_queries': list(hist), 'cache': cache})
        c = getattr(st.obj, '_cache', None)
        if not out and cache and c is not None and list(c) != L[:len(c)]:
            # internal state only triggers one more *observable* question on a rebuilt object: the full listing
            st3 = fresh()
            for o in tuple(hist) + (q,):
                step(st3, o)
            seen = step(st3, ('list',))
            if seen != ('ok', list(L)):
                out.append({'kind': 'query-disagrees', 'query': ('list',), 'got': seen, 'expected': ('ok', list(L)),
                            'after_queries': list(hist) + [q], 'cache': cache})
        return out

    def canon(st):
        o = st.obj
        c = getattr(o, '_cache', None)
        return (None if c is None else len(c), bool(getattr(o, '_cache_complete', False)),
                getattr(o, '_len', None))
    try:
        if cache:
            r = history.bfs(fresh, lambda st, h: qs, step, check, canon, max_depth=4 if thorough else 2)
            trans, states = r.transitions, r.states
            vs = r.violations
            for kset in r.returns.values():
                distinct.update(kset)
        else:
            # one state only: all single queries, then all ordered pairs of a reduced menu
            trans = 0
            vs = []
            for q in qs:
                st = fresh()
                ans = step(st, q)
                trans += 1
                distinct.add(repr(ans)[:80])
                for v in check(st, (), q, ans):
                    vs.append(((q,), v))
            red = [q for q in qs if q[0] in ('count', 'index', 'list', 'iter-partial', 'contains')] + \
                  [q for q in qs if q[0] in ('slice',)][::9] + [q for q in qs if q[0] in ('after', 'before', 'between', 'xafter')][::7]
            for q1 in red:
                for q2 in red:
                    st = fresh()
                    step(st, q1)
                    ans = step(st, q2)
                    trans += 1
                    for v in check(st, (q1,), q2, ans):
                        vs.append(((q1, q2), v))
            states = 1
    except Capped:
        return Res(capped=True, outcome='capped',
                   viols=[{'kind': 'query-did-not-terminate', 'object': name, 'cache': cache}])
    for hist, v in vs[:6]:
        v['history'] = list(hist)
        viols.append(v)
    return Res(trans=trans, viols=viols, extra={'states': states, 'distinct_answers': len(distinct)},
               sample={'object': name, 'cache': cache, 'len': len(L), 'queries': len(qs), 'states': states})


# ---- replace()
def replace_cases():
    from dateutil.rrule import MO, TU, FR
    base = [dict(freq=3, dtstart=D0, count=5),
            dict(freq=2, dtstart=D0, until=D0 + 30 * DAY, byweekday=(1, 6), wkst=6, interval=2),
            dict(freq=1, dtstart=D0, count=6, bymonthday=(1, -1), bysetpos=-1),
            dict(freq=0, dtstart=D0, count=4, byweekno=1, byweekday=0, cache=True),
            dict(freq=4, dtstart=D0, count=30, byminute=(0, 30), bysecond=5),
            # rules whose BY-parts are defaults taken from the start: a replaced start must move them along
            dict(freq=2, dtstart=D0, count=6), dict(freq=1, dtstart=D0, count=5), dict(freq=0, dtstart=D0, count=3),
            dict(freq=2, dtstart=D0, count=8, interval=2, wkst=2), dict(freq=3, dtstart=D0, count=4, byhour=(9, 21))]
    changes = [('interval', 3), ('count', 2), ('count', None), ('until', D0 + 3 * DAY), ('dtstart', D0 + DAY + SEC),
               ('freq', 3), ('freq', 1), ('wkst', 3), ('bysetpos', 1), ('bymonth', (9, 10)), ('bymonthday', 3),
               ('byyearday', (245, 246, 250)), ('byweekno', 36), ('byweekday', 1), ('byeaster', 0), ('byhour', (9, 10)),
               ('byminute', 15), ('bysecond', (0, 30)), ('cache', True), ('cache', False),
               ('dtstart', D0 + 33 * DAY), ('dtstart', (D0 - 400 * DAY).replace(hour=23, minute=59, second=59)), ('byweekday', None),
               ('bymonthday', None), ('interval', 1), ('wkst', 0)]
    out = []
    for bi in range(len(base)):
        for ch in changes:
            out.append((bi, ch))
        for ch1, ch2 in itertools.combinations(changes[:8], 2):
            if ch1[0] != ch2[0]:
                out.append((bi, ch1, ch2))
    return base, out


def eval_replace(case):
    from dateutil.rrule import rrule
    warnings.simplefilter('ignore')
    base, _ = replace_cases()
    kw = dict(base[case[0]])
    chs = case[1:]
    r = rrule(**kw)
    newkw = dict(kw)
    for name, val in chs:
        newkw[name] = val
    try:
        exp_rule = rrule(**newkw)
        exp = ('ok', list(itertools.islice(exp_rule, 60)))
    except ValueError:
        exp = ('exc', 'ValueError')
    before = list(itertools.islice(r, 60))
    try:
        r2 = r.replace(**dict(chs))
        got = ('ok', list(itertools.islice(r2, 60)))
    except ValueError:
        got = ('exc', 'ValueError')
    except Exception as e:
        got = ('exc', type(e).__name__)
    viols = []
    if got != exp:
        viols.append({'kind': 'replace-disagrees', 'base': kw, 'changes': list(chs), 'got': got[1][:4] if got[0] == 'ok' else got,
                      'expected': exp[1][:4] if exp[0] == 'ok' else exp})
    # (whether the copy caches is not observable through any statement - cached and uncached rules answer alike -
    # so the private memo of the copy is not looked at)
    if list(itertools.islice(r, 60)) != before:
        viols.append({'kind': 'replace-mutated-original', 'base': kw, 'changes': list(chs)})
    return Res(viols=viols, trans=2)


def signature(case, detail):
    sig = {'kind': detail.get('kind')}
    q = detail.get('query')
    if q:
        sig['query'] = q[0]
        if q[0] == 'slice':
            sig['slice_class'] = ('stop0' if q[2] == 0 else '') + ('neg' if any(isinstance(x, int) and x < 0 for x in q[1:3]) else '')
    return sig


def replay(part, case):
    if part.startswith('replace'):
        return eval_replace(tuple(case)).viols
    return eval_object(tuple(case)).viols


def run(ctx):
    history.selftest()
    cs = [(n, c, ctx.thorough) for n in OBJECTS for c in (False, True)]
    ctx.explore('query-histories', cs, 'eval_object', chunk=1)
    _, rc = replace_cases()
    ctx.explore('replace', rc, 'eval_replace', chunk=32)
    ctx.coverage_extra.update({
        'states': ctx.counts['states'],
        'traces_validated_against_impl': ctx.counts['transitions'],
        'bounds': {'history_depth_cached': 4 if ctx.thorough else 2, 'uncached': 'all single queries + all ordered pairs of a reduced menu',
                   'objects': OBJECTS},
        'rule': 'BFS over query histories per object; canonical state (cache length, complete flag, known length); every answer compared '
                'with list operations on L; distinct_answers counts distinct observed return values (vacuity indicator)',
    })
    ctx.assumptions += ['L = list(fresh uncached equal object) is the reference sequence (its own correctness is C01/C10)']
