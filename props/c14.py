"""C14 -- parse() is total: a datetime, ParserError or OverflowError, always terminating.

E1 over the parser's own state machine: the alphabet is lexer tokens (one per branch
of _parse / _parse_numeric_token plus hostile ones), the bound is the sequence depth;
every token sequence up to the depth is parsed under every option set.
Oracle: outcome in {datetime (or (datetime, tokens) with fuzzy_with_tokens),
ValueError family, OverflowError}; TypeError for non-text; bounded CPU time per
call; second evaluation identical; no carry-over between calls (ordered pairs).
"""
import datetime as D
import io
import itertools
import os
import time
import warnings

from mc.core import Res

TOK = ['1', '12', '31', '99', '2003', '0', '123456', '20030925', '200309251036', '20030925103628', '1.5', '12.', '.5',
       ':', '-', '/', '.', ',', ' ', '+', 'T', 'Z', 'am', 'pm', 'a.m.', 'Sep', 'Mon', 'h', 'm', 's', 'of', 'UTC', 'EST', 'GMT',
       '(', ')', 'x', '٣', '\xb2', '\x00', 'inf', 'nan', 'e5', '9' * 30, '0' * 9, '10', '36', 'Z0', "'", 'ad',
       'GMT+3', 'EST-5', '10:36']
OPTS = [{}, {'fuzzy': True}, {'fuzzy_with_tokens': True}, {'dayfirst': True, 'yearfirst': True}, {'ignoretz': True},
        {'tzinfos': {'EST': -18000, 'x': 3600, 'UTC': 0, 'GMT': 0}},
        {'fuzzy_with_tokens': True, 'ignoretz': True}]
DEFAULT = D.datetime(2003, 9, 25, 1, 2, 3, 4)
CPU_CAP = 2.0


def safe_offset(dt):
    """the statement promises a datetime, not that a numeric offset of 99 hours is usable: such results are
    recorded with their offset marked, not judged"""
    try:
        return dt.utcoffset()
    except ValueError:
        return 'offset-out-of-range'


def outcome(s, kw):
    """-> (kind, value-or-type)"""
    from dateutil import parser
    try:
        r = parser.parse(s, default=DEFAULT, **kw)
    except ValueError as e:
        return ('ValueError', type(e).__name__)
    except OverflowError:
        return ('OverflowError', None)
    except TypeError as e:
        return ('TypeError', str(e)[:60])
    except Exception as e:
        return ('OTHER', type(e).__name__ + ':' + str(e)[:60])
    if kw.get('fuzzy_with_tokens'):
        if not (isinstance(r, tuple) and len(r) == 2 and isinstance(r[0], D.datetime) and isinstance(r[1], tuple)):
            return ('BADSHAPE', repr(r)[:80])
        return ('ok', (r[0].replace(tzinfo=None), safe_offset(r[0]), r[1]))
    if not isinstance(r, D.datetime):
        return ('BADSHAPE', repr(r)[:80])
    return ('ok', (r.replace(tzinfo=None), safe_offset(r)))


def eval_prefix(case):
    """all sequences that start with the given token prefix, up to the depth"""
    prefix, depth = case
    warnings.simplefilter('ignore')
    viols = []
    kinds = set()
    n = 0
    hist = {}
    base = [TOK[i] for i in prefix]
    for L in range(0, depth - len(prefix) + 1):
        for tail in itertools.product(TOK, repeat=L):
            s = ''.join(base) + ''.join(tail)
            for oi, kw in enumerate(OPTS):
                n += 1
                t0 = time.process_time()
                o = outcome(s, kw)
                dt = time.process_time() - t0
                hist[o[0]] = hist.get(o[0], 0) + 1
                bad = None
                if o[0] in ('OTHER', 'BADSHAPE', 'TypeError'):
                    bad = {'kind': 'unexpected-exception' if o[0] != 'BADSHAPE' else 'bad-result-shape', 'text': s, 'options': kw,
                           'outcome': o, 'exception': o[1].split(':')[0] if isinstance(o[1], str) else None}
                elif dt > CPU_CAP:
                    bad = {'kind': 'too-slow', 'text': s, 'options': kw, 'cpu_s': round(dt, 2)}
                elif L == 0 or oi == 0:
                    # determinism: the same call again gives the same outcome
                    o2 = outcome(s, kw)
                    if o2 != o:
                        bad = {'kind': 'not-deterministic', 'text': s, 'options': kw, 'first': o, 'second': o2}
                if bad is not None:
                    key = (bad['kind'], bad.get('exception'))
                    if key not in kinds and len(viols) < 5:
                        kinds.add(key)
                        viols.append(bad)
    return Res(trans=n, viols=viols, extra={'out_' + k: v for k, v in hist.items()},
               sample={'prefix': base, 'strings_x_options': n, 'outcomes': hist} if prefix in ((2,), (21,)) else None)


def eval_types(case):
    """str / bytes / stream equivalence and TypeError for non-text"""
    from dateutil import parser
    warnings.simplefilter('ignore')
    viols = []
    n = 0
    for toks in itertools.product(range(len(TOK)), repeat=2):
        if toks[0] % 7 != case:
            continue
        s = TOK[toks[0]] + TOK[toks[1]]
        for kw in ({}, {'fuzzy': True}):
            o = outcome(s, kw)
            # bytes are the UTF-8 encoding of the text (non-ASCII tokens included)
            variants = [('stream', io.StringIO(s)), ('bytes', s.encode('utf-8')), ('bytearray', bytearray(s.encode('utf-8')))]
            for name, v in variants:
                n += 1
                o2 = outcome(v, kw)
                if o2 != o:
                    viols.append({'kind': 'input-types-differ', 'text': s, 'input': name, 'options': kw, 'str_outcome': o, 'outcome': o2})
    if case == 0:
        for x in (None, 5, 5.5, ['2003'], D.datetime(2003, 1, 1), object()):
            n += 1
            try:
                parser.parse(x)
                viols.append({'kind': 'non-text-accepted', 'input': repr(x)[:40]})
            except TypeError:
                pass
            except Exception as e:
                viols.append({'kind': 'non-text-wrong-exception', 'input': repr(x)[:40], 'error': repr(e)[:80]})
    return Res(trans=n, viols=viols[:4])


def leak_set():
    """a subset of strings covering every outcome kind and parser branch (for the ordered-pair state-leak check)"""
    out = []
    for a in TOK:
        out.append(a)
    for a, b in itertools.product(TOK[::3], TOK[::2]):
        out.append(a + ' ' + b)
    out += ['10:36 GMT+3', '2003-09-25 10:36:28 UTC-3', '10:36 EST+5', '10:36:28 BRST-03:00', '10:36 +0300 (MSK)',
            'Sep 25 2003 10:36:28 EST', '2003-09-25T10:36:28.5+03:00', 'Thursday', '10:36 pm', '99/12/31', '1.5h', '9' * 30 + 'h',
            'Today is 25 of September of 2003, exactly at 10:49:41 with timezone -03:00.', '10h36m28.5s', '20030925T1036']
    seen = []
    for s in out:
        if s not in seen:
            seen.append(s)
    return seen[:300]


def eval_leak(i):
    """B's outcome after A equals B's outcome on its own, for A = leak_set()[i] and every B, both option orders"""
    warnings.simplefilter('ignore')
    S = leak_set()
    a = S[i]
    viols = []
    n = 0
    tzA = {'tzinfos': {'EST': 'EST5EDT', 'GMT': 'GMT+3', 'UTC': 7200, 'BRST': 'BRST3'}}
    tzB = {'tzinfos': {'EST': 'EST-8', 'GMT': -3600, 'UTC': 'UTC-5', 'BRST': -7200}}
    for kwa in (OPTS[0], OPTS[2], OPTS[3], tzA):
        for b in S:
            for kwb in (OPTS[0], OPTS[1]) + ((tzB,) if any(n in b for n in ('EST', 'GMT', 'UTC', 'BRST')) else ()):
                n += 1
                alone = outcome(b, kwb)
                outcome(a, kwa)
                after = outcome(b, kwb)
                if after != alone:
                    viols.append({'kind': 'state-carried-over', 'first_call': a, 'first_options': kwa, 'text': b,
                                  'options': kwb, 'alone': alone, 'after': after})
                    if len(viols) > 3:
                        return Res(trans=n, viols=viols)
    return Res(trans=n, viols=viols)


# ---- whole-process call-order differential: the same multiset of calls in different orders, each order in a fresh
# interpreter; any call whose outcome depends on the order reveals state kept between calls (first-wins and
# last-wins memo tables alike), which a within-process "alone vs after" comparison cannot see once the state exists
def order_calls():
    tzA = {'tzinfos': {'EST': 'EST5EDT', 'GMT': 'GMT+3', 'UTC': 7200, 'BRST': 'BRST3'}}
    tzB = {'tzinfos': {'EST': 'EST-8', 'GMT': -3600, 'UTC': 'UTC-5', 'BRST': -7200}}
    calls = []
    for s_ in leak_set():
        for kw in (OPTS[0], OPTS[1], OPTS[3], tzA, tzB):
            calls.append((s_, kw))
    return calls


def run_order(which):
    """executed in a fresh interpreter: -> list of repr(outcome) in canonical call index order"""
    warnings.simplefilter('ignore')
    calls = order_calls()
    idx = list(range(len(calls)))
    if which == 1:
        idx.reverse()
    elif which == 2:
        idx = idx[1::2] + idx[0::2]
    elif which == 3:
        idx = sorted(idx, key=lambda i: (i * 7919) % len(idx))
    out = [None] * len(calls)
    for i in idx:
        out[i] = repr(outcome(*calls[i]))
    return out


def eval_order(_):
    import json
    import subprocess
    import sys
    runs = []
    for which in range(4):
        code = ("import sys, json; sys.path.insert(0, %r); from props import c14; "
                "print(json.dumps(c14.run_order(%d)))" % (os.path.dirname(os.path.dirname(os.path.abspath(__file__))), which))
        r = subprocess.run([sys.executable, '-c', code], capture_output=True, text=True, timeout=600)
        if r.returncode != 0:
            return Res(viols=[{'kind': 'harness-exception', 'error': 'order run %d failed: %s' % (which, r.stderr[-300:])}])
        runs.append(json.loads(r.stdout.strip().splitlines()[-1]))
    calls = order_calls()
    viols = []
    for i, c in enumerate(calls):
        vals = set(r[i] for r in runs)
        if len(vals) > 1:
            viols.append({'kind': 'outcome-depends-on-call-order', 'text': c[0], 'options': {k: (v if not isinstance(v, dict) else sorted(v)) for k, v in c[1].items()},
                          'outcomes': sorted(vals)[:3]})
            if len(viols) >= 3:
                break
    return Res(trans=len(calls) * 4, viols=viols, sample={'calls': len(calls), 'orders': 4})


LONG_TEXTS = [('Jan 2 2003 ' + 'x Mon ' * 20000, {'fuzzy_with_tokens': True}), ('Jan 2 2003 ' + 'x Mon ' * 20000, {'fuzzy': True}),
              ('2003-09-25 ' + 'at ' * 40000, {}), ('2003-09-25 10:36' + ' ' * 100000, {}), ('x ' * 30000 + '2003-09-25', {'fuzzy': True}),
              ('1 ' * 20000, {}), ('1 ' * 20000, {'fuzzy_with_tokens': True}), ('Sep ' * 20000 + '2003', {'fuzzy': True}),
              (', ' * 50000 + '2003-09-25', {})]


def eval_long(i):
    """promptness on long inputs: ten thousands of tokens are read in about half a second of CPU; a CPU-time cap more
    than ten times that catches super-linear work"""
    from mc.core import with_alarm, Capped
    text, kw = LONG_TEXTS[i]
    t0 = time.process_time()
    try:
        o = with_alarm(120.0, outcome, text, kw)           # wall-clock stop for runaways only
    except Capped:
        return Res(viols=[{'kind': 'too-slow', 'text': text[:40] + '...(%d chars)' % len(text), 'options': kw, 'wall_cap_s': 120}], trans=1)
    cpu = time.process_time() - t0
    if cpu > 8.0:                                           # CPU time, so that a busy machine does not count; clean tree: < 0.6 s each
        return Res(viols=[{'kind': 'too-slow', 'text': text[:40] + '...(%d chars)' % len(text), 'options': kw, 'cpu_s': round(cpu, 1),
                           'cpu_cap_s': 8}], trans=1)
    if o[0] in ('OTHER', 'BADSHAPE', 'TypeError'):
        return Res(viols=[{'kind': 'unexpected-exception', 'text': text[:40] + '...(%d chars)' % len(text), 'options': kw, 'outcome': o[:2]}], trans=1)
    return Res(trans=1)          # (the CPU time itself is not recorded: evidence is the same from run to run)


def eval_infoswitch(case):
    """parse(text, parserinfo=...) with parserinfo objects of different flags, one call after the other: each call
    is read under its own object's flags (10/09/2003 is 9 October, or 10 September under dayfirst)"""
    from dateutil import parser
    warnings.simplefilter('ignore')
    order = case
    flags = {'us': {}, 'eu': {'dayfirst': True}, 'yf': {'yearfirst': True}, 'eu-yf': {'dayfirst': True, 'yearfirst': True}}
    texts = {'10/09/2003': {'us': (2003, 10, 9), 'eu': (2003, 9, 10), 'yf': (2003, 10, 9), 'eu-yf': (2003, 9, 10)},
             '03-09-25': {'us': (2025, 3, 9), 'eu': (2025, 9, 3), 'yf': (2003, 9, 25), 'eu-yf': (2003, 9, 25)}}
    viols = []
    n = 0
    for text, exp in texts.items():
        for name in order:
            n += 1
            try:
                got = parser.parse(text, parserinfo=parser.parserinfo(**flags[name]), default=DEFAULT)
                g = (got.year, got.month, got.day)
            except Exception as e:
                g = 'EXC:' + type(e).__name__
            if g != exp[name]:
                viols.append({'kind': 'state-carried-over', 'text': text, 'parserinfo_flags': flags[name], 'call_order': list(order),
                              'got': g, 'expected': exp[name]})
    return Res(trans=n, viols=viols[:3])


TZ_SWITCHES = [('IST-5:30', 'IST-2', 'IST', 7200), ('CST6', 'CST-8', 'CST', 28800), ('EST5EDT,M3.2.0,M11.1.0', 'EST-10EDT,M3.2.0,M11.1.0', 'EST', 36000),
               ('AAA3', 'AAA-3', 'AAA', 10800), ('GMT0', 'GMT0BST,M3.5.0/1,M10.5.0', 'GMT', 0)]


def eval_tzswitch(case):
    """the process zone is an input of parse(): after the zone has changed (same zone *names*, other offsets) the
    result follows the new zone, whatever was parsed before the change"""
    from dateutil import parser
    from props.posixmenu import tz_env
    warnings.simplefilter('ignore')
    a, b, name, off_b = case
    viols = []
    n = 0
    for text in ('2003-01-25 10:36:28 ' + name, '25 Jan 2003 10:36 ' + name, 'Sat Jan 25 10:36:28 %s 2003' % name):
        for before in (a, None):
            if before is not None:
                with tz_env(before):
                    try:
                        parser.parse(text, default=DEFAULT)
                    except Exception:
                        pass
            with tz_env(b):
                n += 1
                o = outcome(text, {})
            if o[0] != 'ok' or o[1][1] is None or o[1][1] == 'offset-out-of-range' or o[1][1].total_seconds() != off_b:
                viols.append({'kind': 'state-carried-over' if before else 'local-zone-name-not-resolved', 'text': text, 'tz_before': before, 'tz_now': b,
                              'outcome': o, 'expected_offset': off_b})
    return Res(trans=n, viols=viols[:3])


def signature(case, detail):
    return {'kind': detail.get('kind'), 'exception': detail.get('exception')}


def replay(part, case):
    if part.startswith('sequences'):
        return eval_prefix((tuple(case[0]), case[1])).viols
    if part == 'call-order-global':
        return eval_order(case).viols
    if part == 'input-types':
        return eval_types(case).viols
    if part == 'parserinfo-switch':
        return eval_infoswitch(tuple(case)).viols
    if part == 'long-inputs':
        return eval_long(case).viols
    if part == 'process-zone-switch':
        return eval_tzswitch(tuple(case)).viols
    return eval_leak(case).viols


def run(ctx):
    depth = ctx.pick(3, 4)
    n = len(TOK)
    cases = [((), 0)] + [((i,), 1) for i in range(n)]
    if depth == 3:
        cases += [((i, j), 3) for i in range(n) for j in range(n)]
    else:
        cases += [((i, j), 2) for i in range(n) for j in range(n)]
        cases += [((i, j, k), 4) for i in range(n) for j in range(n) for k in range(n)]
    ctx.explore('sequences-depth-%d' % depth, cases, 'eval_prefix', chunk=16 if depth == 3 else 64)
    ctx.explore('input-types', list(range(7)), 'eval_types', chunk=1)
    ctx.explore('call-order', list(range(len(leak_set()))), 'eval_leak', chunk=4)
    ctx.explore('call-order-global', [0], 'eval_order', serial=True)
    ctx.explore('process-zone-switch', TZ_SWITCHES, 'eval_tzswitch', serial=True)
    ctx.explore('long-inputs', list(range(len(LONG_TEXTS))), 'eval_long', chunk=1)
    ctx.explore('parserinfo-switch', [p for p in itertools.permutations(('us', 'eu', 'yf', 'eu-yf'), 3)], 'eval_infoswitch', serial=True)
    ctx.coverage_extra.update({
        'bounds': {'token_alphabet': len(TOK), 'depth': depth, 'option_sets': len(OPTS), 'leak_set': len(leak_set()),
                   'cpu_cap_s': CPU_CAP},
        'outcome_classes': {k[4:]: v for k, v in ctx.counts.items() if k.startswith('out_')},
        'rule': 'every token sequence up to the depth x 6 option sets (states = sequences, transitions = parse calls); all ordered pairs of '
                'the leak set for carry-over; str/bytes/stream equivalence on all token pairs',
        'tokens': [repr(t)[:20] for t in TOK],
    })
    ctx.assumptions += ['"ParserError, a ValueError subclass" is read as the ValueError family (loosest sound reading)',
                        'promptness = CPU time cap per call on finite inputs']
