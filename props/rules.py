"""Shared recurrence-rule alphabet, builders and implementation runner (C01, C13)."""
import collections
import datetime as D
import warnings

from mc import seams, zones
from mc.core import Capped, with_alarm
from refs import rrule_ref

FREQNAMES = ['YEARLY', 'MONTHLY', 'WEEKLY', 'DAILY', 'HOURLY', 'MINUTELY', 'SECONDLY']
MO, TU, WE, TH, FR, SA, SU = range(7)

# menus of non-default values, simplest first; weekdays are (weekday, n) pairs
MENUS = collections.OrderedDict([
    ('interval', [2, 3, 7, 12, 24, 60, 9, 90]),     # 9 / 90: 1 < gcd(interval, 24 or 60) < interval
    ('wkst', [1, 3, 6]),
    ('bysetpos', [1, -1, (2, -2), 3, (366, -366)]),           # the ends of the RFC range
    ('bymonth', [1, (2, 12), (4, 9), 2, (1, 2), (3, 5, 7), (6, 8, 10, 11)]),   # every month is named by some value;             # (1, 2): neighbours, so an nth weekday that spills over lands in a listed month
    ('bymonthday', [1, 31, -1, (29, -31), (15, -2)]),
    ('byyearday', [1, 366, -1, (60, -366), (100, 200, -100)]),
    ('byweekno', [1, 53, -1, (52, -53), 20, (2, -2), (1, -2)]),   # (1, -2): week 1 together with a negative number
    ('byweekday', [(TU, None), ((MO, None), (FR, None)), (TU, 1), (FR, -1), ((SU, 2), (SA, -2)),
                   ((MO, None), (FR, 1)), ((FR, -1), (TH, None)), (SU, 5), (SU, -5), (MO, 53), (WE, -53), TH,
                   (TU, 10), (FR, -20),                        # ordinals written with a zero digit
                   tuple((d, None) for d in range(7))]),       # every day: 365/366 candidates per year for BYSETPOS
    ('byeaster', [0, (-2, 1), 49, -100, 300]),
    ('byhour', [0, (6, 18), 23]),
    ('byminute', [0, (15, 45), 59, (0, 30), (12, 19, 36, 43)]),   # 12/36 (19/43 from minute 7) need gcd(interval, 60), not gcd(interval, 24)
    ('bysecond', [0, (10, 50), 59, (0, 30), (8, 12, 20, 36)]),
    ('term', [('count', 1), ('count', 7), ('until', 'occ'), ('until', 'occ-1s'), ('until', 'date'), ('count', 0),
              # both given (the constructor only warns): whichever ends the sequence first does
              ('until', 'occ', 2), ('until', 'occ', 7)]),
    ('kind', ['date', 'utc', 'tzfile', 'micro']),
])

STARTS = [D.datetime(1997, 9, 2, 9, 0, 0),        # the suite's start (Tuesday)
          D.datetime(2000, 2, 29, 23, 59, 59),    # leap day, last second
          D.datetime(1998, 12, 31, 0, 0, 0),      # Thursday, end of a 53-week year
          D.datetime(2003, 1, 1, 12, 30, 15),
          D.datetime(2099, 12, 29, 6, 0, 0),      # century, non-leap 2100 ahead
          D.datetime(2004, 12, 27, 18, 45, 5),    # Monday of 2004-W53
          D.datetime(9998, 12, 28, 9, 0, 0),      # real MAXYEAR stop
          D.datetime(2006, 1, 1, 0, 0, 0),        # Sunday, 1 January, midnight (day index 0, all-zero time)
          D.datetime(2011, 11, 11, 11, 7, 44)]    # hour, minute and second in different residue classes mod 2, 3, 4, 12

# horizon in days and occurrences compared, per frequency
HORIZON_DAYS = {0: 365 * 13, 1: 365 * 4, 2: 500, 3: 400, 4: 40, 5: 3, 6: 1}
TZFILE_NAME = 'America/New_York'


def is_wd_pair(x):
    return isinstance(x, tuple) and len(x) == 2 and isinstance(x[0], int) and (x[1] is None or isinstance(x[1], int))


def wd_list(v):
    """byweekday menu value -> list of (w, n) pairs / ints"""
    if isinstance(v, int):
        return [v]
    if is_wd_pair(v):
        return [v]
    return list(v)


def impl_weekdays(v):
    from dateutil.rrule import weekday
    out = []
    for x in wd_list(v):
        out.append(x if isinstance(x, int) else weekday(x[0], x[1]))
    return tuple(out)


def ref_weekdays(v):
    return [x if isinstance(x, int) else (x[0], x[1]) for x in wd_list(v)]


def start_value(case):
    """the dtstart argument (date / naive / aware) for a case"""
    st = case['start']
    kind = case.get('kind')
    if kind == 'date':
        return st.date()
    if kind == 'utc':
        return st.replace(tzinfo=zones.build(('utc',)))
    if kind == 'micro':
        return st.replace(microsecond=999999)      # sub-second part of the start must not survive (whole-second resolution)
    if kind == 'tzfile':
        z = zones.build(('gettz', TZFILE_NAME))
        if z is None:
            raise Capped()
        return st.replace(tzinfo=z)
    return st


def horizon_for(case):
    st = case['start']
    try:
        return st + D.timedelta(days=HORIZON_DAYS[case['freq']])
    except OverflowError:
        return D.datetime.max.replace(microsecond=0)


def ref_kwargs(case, dtstart):
    kw = dict(freq=case['freq'], dtstart=dtstart, wkst=case.get('wkst', 0))
    for k, v in case.items():
        if k in ('interval', 'bysetpos', 'bymonth', 'bymonthday', 'byyearday', 'byweekno', 'byeaster',
                 'byhour', 'byminute', 'bysecond'):
            kw[k] = v
        elif k == 'byweekday':
            kw[k] = ref_weekdays(v)
    return kw


def impl_kwargs(case, dtstart):
    kw = dict(freq=case['freq'], dtstart=dtstart, wkst=case.get('wkst', 0))
    for k, v in case.items():
        if k in ('interval', 'bysetpos', 'bymonth', 'bymonthday', 'byyearday', 'byweekno', 'byeaster',
                 'byhour', 'byminute', 'bysecond'):
            kw[k] = v
        elif k == 'byweekday':
            kw[k] = impl_weekdays(v)
    return kw


def resolve_term(case, dtstart, base_occ):
    """-> dict(count=..)/dict(until=..) for the case's termination, derived from the unbounded reference
    sequence base_occ (so UNTIL is an occurrence / one second before it / its date)."""
    term = case.get('term')
    if term is None:
        return {}
    if term[0] == 'count':
        return {'count': term[1]}
    if base_occ:
        pivot = base_occ[min(3, len(base_occ) - 1)]
    else:
        pivot = (dtstart if isinstance(dtstart, D.datetime) else D.datetime(dtstart.year, dtstart.month, dtstart.day))
        pivot = pivot + D.timedelta(days=9)
    aware = pivot.tzinfo is not None
    if term[1] == 'occ':
        u = pivot
    elif term[1] == 'occ-1s':
        u = pivot - D.timedelta(seconds=1)
    else:
        if aware:
            u = pivot.replace(hour=0, minute=0, second=0)     # a date cannot be aware: midnight instead
        else:
            u = pivot.date()
    if aware and isinstance(u, D.datetime):
        u = u.astimezone(zones.build(('utc',)))                 # RFC: UNTIL in UTC when DTSTART is aware
    if len(term) > 2:
        return {'until': u, 'count': term[2]}
    return {'until': u}


def run_impl(kw, horizon, maxn, budget=None, wall=10.0, cache=False):
    """-> (status, items, complete).  status: ok | ValueError-init | ValueError-iter | EXC:<type>
    complete=False when a budget/wall cap stopped the walk (items is then a checked prefix only)."""
    from dateutil.rrule import rrule
    warnings.simplefilter('ignore')
    kw = dict(kw)
    freq = kw.pop('freq')
    seams.install_period_budget()
    seams.rrule_horizon(horizon.year + 1)
    out = []

    def body():
        try:
            r = rrule(freq, cache=cache, **kw)
        except ValueError:
            return ('ValueError-init', out, True)
        except Exception as e:
            return ('EXC:%s:%s' % (type(e).__name__, str(e)[:80]), out, True)
        try:
            for x in r:
                if x.replace(tzinfo=None) > horizon or len(out) >= maxn:
                    break
                out.append(x)
        except ValueError:
            return ('ValueError-iter', out, True)
        except seams.Budget:
            return ('ok', out, False)
        except seams.PastHorizon:
            return ('ok', out, True)
        except Exception as e:
            return ('EXC:%s:%s' % (type(e).__name__, str(e)[:80]), out, True)
        return ('ok', out, True)
    seams.set_budget(budget, horizon.toordinal())
    try:
        return with_alarm(wall, body)
    except (Capped, seams.Budget):
        return ('ok', out, False)
    except seams.PastHorizon:
        return ('ok', out, True)
    finally:
        seams.set_budget(None)


def describe(case):
    d = {k: v for k, v in case.items()}
    d['freq'] = FREQNAMES[case['freq']]
    return d
