"""C04 -- every tzinfo converts UTC to local time and back without loss.

For every zone object the library can produce (every distinct TZif file, synthetic
TZif shapes, POSIX rule specs as tzstr / tzrange / VTIMEZONE / tzlocal, fixed
offsets incl. sub-minute) and every UTC instant t_i + delta around every offset
change: loc = utc.astimezone(z) must satisfy
    loc.utcoffset() == wall(loc) - utc,   loc.astimezone(UTC) == utc,
(wall, fold) injective on the neighbourhood, and offset / abbreviation equal to the
independent timeline's value at that instant.
"""
import datetime as D
import warnings

from mc.core import Res
from props import tzwalk, tzzones
from refs import tzif_ref

_CFG = {'thorough': False}


def worker_setup(arg):
    _CFG['thorough'] = bool(arg)


def eval_zone(case):
    from dateutil import tz
    warnings.simplefilter('ignore')
    deltas = tzwalk.thorough_deltas() if _CFG['thorough'] else tzwalk.QUICK_DELTAS
    viols = []
    n = 0
    kinds = set()

    def fail(kind, **info):
        if kind not in kinds and len(viols) < 4:
            kinds.add(kind)
            info['kind'] = kind
            info['zone'] = tl.label
            info['transitions_closer_than_offset_change'] = tl.crowded()
            viols.append(info)
    with tzzones.open_case(case) as (z, tl):
        us = set()
        for t in tl.transitions:
            for d in deltas:
                us.add(t + d)
        lo, hi = -2 ** 31 + 86400 * 2, 2 ** 31 + 86400 * 2      # includes the day after a final transition at 2^31-1
        us = sorted(u for u in us if lo <= u <= hi)
        images = {}
        for u in us:
            n += 1
            utc = tzzones.utc_aware(u)
            try:
                loc = utc.astimezone(z)
                off = loc.utcoffset()
                wall = loc.replace(tzinfo=None)
                back = loc.astimezone(tz.UTC)
                name = loc.tzname()
            except Exception as e:
                fail('conversion-exception', utc=u, error=repr(e)[:120])
                continue
            if loc.tzinfo is None or off is None:
                fail('conversion-returned-naive', utc=u, utc_time=utc.replace(tzinfo=None), got=loc)
                continue
            if off != wall - utc.replace(tzinfo=None):
                fail('utcoffset-is-not-wall-minus-utc', utc=u, utc_time=utc.replace(tzinfo=None), wall=wall, fold=loc.fold,
                     offset=off.total_seconds())
            if back != utc:
                fail('round-trip-lost', utc=u, utc_time=utc.replace(tzinfo=None), wall=wall, fold=loc.fold,
                     back=back.replace(tzinfo=None))
            key = (wall, loc.fold)
            if key in images and images[key] != u:
                fail('two-instants-one-wall-fold', utc=u, other=images[key], wall=wall, fold=loc.fold)
            images[key] = u
            if tl.defined(u):
                eo, ed, ea = tl.at(u)
                if off.total_seconds() != eo or name != ea:
                    fail('offset-or-abbreviation-not-in-force', utc=u, utc_time=utc.replace(tzinfo=None),
                         got=(off.total_seconds(), name), expected=(eo, ea))
    return Res(trans=n, viols=viols, nontrivial=len(tl.transitions) > 0 and case[0] != 'fixed',
               extra={'transitions_walked': len(tl.transitions)},
               sample={'zone': tl.label, 'transitions': len(tl.transitions), 'probes': n}
               if (case[0] == 'posix' and len(case[1]) == 1 and case[1][0][0] == 'south') or case[1] in ('Europe/Dublin', 'first-fold') else None)


def signature(case, detail):
    return {'kind': detail.get('kind'), 'zone_kind': case[0], 'zone_class': case[2] if case[0] == 'posix' else None,
            'transitions_closer_than_offset_change': detail.get('transitions_closer_than_offset_change')}


def replay(part, case):
    _CFG['thorough'] = part.endswith('thorough')
    c = tuple(case)
    if c[0] == 'posix':
        c = ('posix', tuple(tuple(x) for x in c[1]), c[2])
    return eval_zone(c).viols


def run(ctx):
    tzif_ref.selftest()
    cases = tzwalk.zone_cases()
    ctx.explore('tzfile-' + ctx.tier, cases, 'eval_zone', chunk=4, setup_arg=ctx.thorough)
    k = ctx.pick(3, 4)
    pc = tzzones.posix_cases(k)
    ctx.explore('rule-zones-' + ctx.tier, pc, 'eval_zone', chunk=16, setup_arg=ctx.thorough)
    ctx.explore('fixed-' + ctx.tier, tzzones.FIXED, 'eval_zone', chunk=4, setup_arg=ctx.thorough)
    ctx.coverage_extra.update({
        'states': ctx.counts['transitions_walked'] + len(cases) + len(pc),
        'bounds': {'tzif_zones': len(cases), 'rule_specs_deviation_k': k, 'rule_zone_cases': len(pc),
                   'deltas': len(tzwalk.thorough_deltas() if ctx.thorough else tzwalk.QUICK_DELTAS)},
        'rule': 'one case per zone object; every transition x probe offsets; states = transitions walked + zones; '
                'non-trivial = zone has at least one offset change',
    })
    ctx.assumptions += ['system zoneinfo is the corpus; v1 data block only (1901..2038)',
                        'rule zones restricted to specs whose transition times lie inside the day (others: C08 known finding)',
                        'tz.UTC is the fixed point of the round trip']
