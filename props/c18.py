"""C18 -- zone factories return one shared object per key, safely under threads.

E2: BFS over request / drop / gc / cache_clear / set_cache_size / nocache histories on
the real factories (gettz, tzoffset, tzstr, tzutc) with a key pool larger than the
strong cache; identity is demanded while the harness still holds the object (within
one cache_clear epoch), equality and equal behaviour always.
E3: 2-3 real threads requesting the same / different keys under the controlled
scheduler with scheduling points at every source line of _factories.py, the gettz
part of tz.py and the standard library's weakref.py (that is where the
lookup-or-create race of a WeakValueDictionary lives).
Value part: equality reflexive/symmetric, equal zones answer equally, copy /
deepcopy / pickle protocols 2-5 equal and behave identically.
"""
import copy
import datetime as D
import gc
import itertools
import pickle
import warnings
import weakref

from mc import history, schedule
from mc.core import Res, Capped, HarnessError, with_alarm

PROBES = [D.datetime(2024, 1, 15, 12), D.datetime(2024, 3, 10, 2, 30), D.datetime(2024, 7, 1), D.datetime(2024, 11, 3, 1, 30),
          D.datetime(1960, 6, 1), D.datetime(2037, 12, 31, 23, 59, 59)]
_COUNTER = itertools.count(1)


def behaviour(z):
    out = []
    for p in PROBES:
        for f in (0, 1):
            d = p.replace(tzinfo=z, fold=f)
            out.append((d.utcoffset(), d.tzname(), d.dst()))
    return out


def uniq():
    """alphabetic token unique per harness build, so no factory state carries over between builds"""
    n = next(_COUNTER)
    s = ''
    for _ in range(6):              # fixed length: code that scans a name character by character must take the same
        n, r = divmod(n, 26)        # number of steps in every execution (a tag that grows made replays diverge)
        s += chr(ord('a') + r)
    return 'Q' + s


GETTZ_NAMES = ['America/New_York', 'EST5EDT,M3.2.0,M11.1.0', 'UTC', 'Europe/London', 'Asia/Tokyo', 'Australia/Sydney',
               'Africa/Cairo', 'America/Sao_Paulo', 'Europe/Dublin', 'Pacific/Auckland', 'Asia/Kolkata']


class Factory(object):
    """uniform view of one factory for the history explorer"""

    def __init__(self, kind, nkeys):
        from dateutil import tz
        self.kind = kind
        self.tz = tz
        tag = uniq()
        if kind == 'gettz':
            tz.gettz.cache_clear()
            tz.gettz.set_cache_size(8)
            self.keys = [tag + n[3:] if n.startswith('EST5EDT') else n for n in GETTZ_NAMES[:nkeys]]
        elif kind == 'tzoffset':
            self.keys = [(tag + 'n%d' % i, 3600 * i - 7200) for i in range(nkeys)]
        elif kind == 'tzstr':
            self.keys = ['%s%s%d' % (tag, chr(ord('A') + i), i + 1) for i in range(nkeys)]
        elif kind == 'tzutc':
            self.keys = ['utc']
        self.epoch = 0

    def get(self, k, variant=0):
        tz = self.tz
        key = self.keys[k]
        if self.kind == 'gettz':
            return tz.gettz(key)
        if self.kind == 'tzoffset':
            if variant:
                return tz.tzoffset(key[0], D.timedelta(seconds=key[1]))      # timedelta spelling of the same key
            return tz.tzoffset(key[0], key[1])
        if self.kind == 'tzstr':
            return tz.tzstr(key)
        return tz.tzutc()

    def fresh(self, k):
        tz = self.tz
        key = self.keys[k]
        if self.kind == 'gettz':
            return tz.gettz.nocache(key)
        if self.kind == 'tzoffset':
            return tz.tzoffset.instance(key[0], key[1])
        if self.kind == 'tzstr':
            return tz.tzstr.instance(key)
        return tz.tzutc.instance() if hasattr(tz.tzutc, 'instance') else None


class HState(object):
    def __init__(self, kind, nkeys):
        self.f = Factory(kind, nkeys)
        self.slots = {}         # slot -> (key index, object, epoch)
        self.lru = []           # model of the strong cache order (most recent last)
        self.size = 8


def h_ops(kind, nkeys, nslots):
    def ops_for(st, hist):
        ops = []
        free = [s for s in range(nslots) if s not in st.slots]
        for k in range(nkeys):
            if free:
                ops.append(('get', k, free[0]))
                if kind == 'tzoffset':
                    ops.append(('get-td', k, free[0]))
            if kind != 'tzutc':
                ops.append(('fresh', k))      # tzutc is a singleton class without an alternate constructor
        for s in sorted(st.slots):
            ops.append(('drop', s))
        ops.append(('gc',))
        if kind == 'gettz':
            ops.append(('clear',))
            for n in (0, 1, 2):
                if n != st.size:
                    ops.append(('size', n))
        return ops
    return ops_for


def h_step(st, op):
    f = st.f
    try:
        k = op[0]
        if k in ('get', 'get-td'):
            z = f.get(op[1], variant=(k == 'get-td'))
            st.slots[op[2]] = (op[1], z, f.epoch)
            if op[1] in st.lru:
                st.lru.remove(op[1])
            st.lru.append(op[1])
            st.lru = st.lru[-st.size:] if st.size else []
            return ('zone', z)
        if k == 'fresh':
            return ('zone', f.fresh(op[1]))
        if k == 'drop':
            del st.slots[op[1]]
            return ('ok',)
        if k == 'gc':
            gc.collect()
            return ('ok',)
        if k == 'clear':
            f.tz.gettz.cache_clear()
            f.epoch += 1
            st.lru = []
            return ('ok',)
        if k == 'size':
            f.tz.gettz.set_cache_size(op[1])
            st.size = op[1]
            st.lru = st.lru[-op[1]:] if op[1] else []
            return ('ok',)
    except Exception as e:
        return ('exc', type(e).__name__ + ':' + str(e)[:80])
    raise ValueError(op)


def eval_history(case):
    kind, nkeys, nslots, depth = case
    warnings.simplefilter('ignore')
    gc.disable()

    def fresh():
        return HState(kind, nkeys)

    def check(st, hist, op, ans):
        out = []
        if ans[0] == 'exc':
            return [{'kind': 'factory-exception', 'op': op, 'error': ans[1]}]
        if op[0] in ('get', 'get-td', 'fresh'):
            z = ans[1]
            if z is None:
                return [{'kind': 'factory-returned-none', 'op': op}]
            for s, (k, obj, ep) in st.slots.items():
                if k != op[1] or (op[0] != 'fresh' and s == op[2]):
                    continue
                if op[0] == 'fresh':
                    if z is obj:
                        out.append({'kind': 'nocache-returned-the-shared-object', 'op': op,
                                    'key_is_tz_string': kind == 'gettz' and any(c.isdigit() for c in str(st.f.keys[op[1]]))})
                elif ep == st.f.epoch and z is not obj:
                    out.append({'kind': 'two-live-objects-for-one-key', 'op': op, 'factory': kind})
                try:
                    if not (z == obj and obj == z) or (z != obj):
                        out.append({'kind': 'equal-requests-unequal-zones', 'op': op})
                except Exception as e:
                    out.append({'kind': 'eq-exception', 'op': op, 'error': repr(e)[:80]})
            if not (z == z) or (z != z):
                out.append({'kind': 'eq-not-reflexive', 'op': op})
        return out[:2]

    def canon(st):
        return (tuple(sorted((s, k, ep == st.f.epoch) for s, (k, o, ep) in st.slots.items())), tuple(st.lru), st.size)
    try:
        res = history.bfs(fresh, h_ops(kind, nkeys, nslots), h_step, check, canon, depth, max_states=60000,
                          kind_of=lambda op: op[0])
    finally:
        gc.enable()
        from dateutil import tz
        tz.gettz.cache_clear()
        tz.gettz.set_cache_size(8)
    viols = []
    for hist, v in res.violations[:3]:
        v['history'] = list(hist)
        v['factory'] = kind
        viols.append(v)
    return Res(trans=res.transitions, viols=viols, capped=res.truncated, extra={'states': res.states},
               sample={'factory': kind, 'keys': nkeys, 'slots': nslots, 'depth': depth, 'states': res.states,
                       'transitions': res.transitions})


def eval_dfs_guard(case):
    """un-deduplicated DFS to a smaller depth: guards against over-merging by the canonical form"""
    kind, nkeys, nslots, depth = case
    warnings.simplefilter('ignore')
    ops_for = h_ops(kind, nkeys, nslots)
    n = 0
    viols = []
    stack = [()]
    while stack:
        hist = stack.pop()
        st = HState(kind, nkeys)
        ok = True
        for op in hist:
            ans = h_step(st, op)
        if len(hist) >= depth:
            continue
        for op in ops_for(st, hist):
            st2 = HState(kind, nkeys)
            for o in hist:
                h_step(st2, o)
            ans = h_step(st2, op)
            n += 1
            if ans[0] == 'exc':
                viols.append({'kind': 'factory-exception', 'history': list(hist) + [op], 'error': ans[1]})
            elif op[0] in ('get', 'get-td'):
                for s, (k, obj, ep) in st2.slots.items():
                    if k == op[1] and s != op[2] and ep == st2.f.epoch and ans[1] is not obj:
                        viols.append({'kind': 'two-live-objects-for-one-key', 'history': list(hist) + [op], 'factory': kind})
            stack.append(hist + (op,))
    from dateutil import tz
    tz.gettz.cache_clear()
    tz.gettz.set_cache_size(8)
    return Res(trans=n, viols=viols[:3], extra={'dfs_histories': n})


def eval_eviction(case):
    """hold one zone, push n other keys through the factory (beyond the strong-cache size), optionally drop/collect,
    then request the held key again (both spellings): it must be the very object still held"""
    kind, n_others, do_gc, held_count, spelling = case
    warnings.simplefilter('ignore')
    f = Factory(kind, 1)
    tz = f.tz
    tag = uniq()

    def req(i, variant=0):
        if kind == 'tzoffset':
            return tz.tzoffset(tag + 'e%d' % i, D.timedelta(seconds=60 * i) if variant else 60 * i)
        if kind == 'tzstr':
            return tz.tzstr('%s%s%d' % (tag, chr(ord('A') + i % 26) * (1 + i // 26), i % 12 + 1))
        names = GETTZ_NAMES + ['Etc/GMT+%d' % k for k in range(1, 13)] + ['Etc/GMT-%d' % k for k in range(1, 15)]
        return tz.gettz(names[i])
    viols = []
    held = [req(i) for i in range(held_count)]
    others = []
    for j in range(n_others):
        z = req(held_count + j)
        if j % 2:
            others.append(z)             # keep every second one alive, drop the rest at once
    if do_gc:
        del others
        gc.collect()
    for i in range(held_count):
        again = req(i, variant=spelling)
        if again is not held[i]:
            viols.append({'kind': 'two-live-objects-for-one-key', 'factory': kind, 'scenario': 'eviction',
                          'others_requested': n_others, 'gc': do_gc, 'held': held_count, 'timedelta_spelling': bool(spelling)})
            break
        if not (again == held[i]):
            viols.append({'kind': 'equal-requests-unequal-zones', 'factory': kind})
    if kind == 'gettz':
        tz.gettz.cache_clear()
    return Res(trans=held_count + n_others + held_count, viols=viols,
               sample={'factory': kind, 'others': n_others, 'gc': do_gc, 'held': held_count} if n_others == 9 and held_count == 1 else None)


# ------------------------------------------------------------------ E3
def factory_locks():
    """(owner, attribute) of every lock the three factories own - found by type, not by name, so that a
    renamed attribute still binds"""
    import _thread
    from dateutil import tz
    lock_type = type(_thread.allocate_lock())
    out = []
    for owner in (tz.tzoffset, tz.tzstr, tz.gettz):
        found = [k for k, v in list(vars(owner).items()) if isinstance(v, (lock_type, schedule.ModelLock))]
        if not found:
            raise HarnessError("no lock attribute found on %r (lock seam cannot bind)" % (owner,))
        out += [(owner, k) for k in found]
    return out


def sched_harness(kind, pattern, nthreads):
    """pattern: per-thread list of key indices requested in order"""
    from dateutil import tz
    from dateutil.tz import _factories as F
    import dateutil.tz.tz as TZ
    whole = {F.__file__, weakref.__file__}
    tzfile_py = TZ.__file__

    def files(frame):
        """scheduling points: every line of _factories.py and weakref.py, and of the gettz function object's
        methods in tz.py (not of the zone constructors they call: parsing a TZif file is thousands of lines
        that touch no shared state)"""
        co = frame.f_code
        if co.co_filename in whole:
            return True
        return co.co_filename == tzfile_py and 'GettzFunc' in getattr(co, 'co_qualname', co.co_name)

    def make(lock_factory):
        # bind every factory lock to a model lock (generic: any attribute whose value is a lock)
        bound = 0
        for obj, attr in factory_locks():
            if not hasattr(obj, attr):
                raise HarnessError("factory lock attribute %s not found on %r" % (attr, obj))
            setattr(obj, attr, lock_factory())
            bound += 1
        if kind in ('gettz', 'gettz-size0', 'gettz-resize'):
            tz.gettz.cache_clear()
            if kind == 'gettz-size0':
                tz.gettz.set_cache_size(0)            # no retention at all: every request passes the eviction code
            elif kind == 'gettz-resize':
                tz.gettz.set_cache_size(2)
                tz.gettz(GETTZ_NAMES[3])              # a full strong cache that a thread shrinks while another one requests
                tz.gettz(GETTZ_NAMES[4])
            else:
                tz.gettz.set_cache_size(1 if any(len(set(p)) > 1 for p in pattern) else 8)
            # gettz(<TZ string>) goes through the tzstr factory: bring that one into a fixed state too
            tag = uniq()
            for i in range(9):
                tz.tzstr('%sD%s%d' % (tag, chr(ord('A') + i), i + 1))
            keys = [GETTZ_NAMES[0], tag + '5EDT,M3.2.0,M11.1.0', GETTZ_NAMES[2]]   # the TZ string is unique per build
            def call(k, _keys=keys):
                if k == 'shrink':
                    tz.gettz.set_cache_size(0)
                    return None
                return tz.gettz(_keys[k])
        elif kind == 'tzoffset':
            tag = uniq()
            # bring the strong cache into one fixed state (full of otherwise unreferenced dummies) through the
            # public interface only, so that no execution inherits retention state from the previous one
            for i in range(9):
                tz.tzoffset(tag + 'dummy%d' % i, i)
            call = lambda k: tz.tzoffset(tag + 'k%d' % k, 3600 * (k + 1))
        elif kind == 'tzstr':
            tag = uniq()
            for i in range(9):
                tz.tzstr('%sD%s%d' % (tag, chr(ord('A') + i), i + 1))
            call = lambda k: tz.tzstr('%s%s%d' % (tag, chr(ord('A') + k), k + 1))
        else:
            call = lambda k: tz.tzutc()

        def body_for(seq):
            def body():
                out = []
                for k in seq:
                    z = call(k)
                    if k != 'shrink':
                        out.append((k, z))
                return out
            return body
        return [body_for(seq) for seq in pattern], None

    def check(ex, ctx):
        if ex.deadlock:
            return ('deadlock',)
        if ex.livelock:
            return ('livelock',)
        for e in ex.errors:
            if e is not None:
                return ('exception', type(e).__name__ + ':' + str(e)[:80])
        by_key = {}
        for res in ex.results:
            for k, z in res or ():
                if z is None:
                    return ('factory-returned-none', k)
                try:
                    behaviour(z)[:2]
                except Exception as e:
                    return ('half-built-zone', type(e).__name__)
                by_key.setdefault(k, []).append(z)
        for k, zs in by_key.items():
            # every object is still referenced by the results, so one key must be one object
            if any(z is not zs[0] for z in zs):
                return ('two-live-objects-for-one-key', k)
        return ('ok',)
    return make, check, files


def restore_real_locks():
    import _thread
    for obj, attr in factory_locks():
        if hasattr(obj, attr):
            setattr(obj, attr, _thread.allocate_lock())
    from dateutil import tz
    tz.gettz.cache_clear()
    tz.gettz.set_cache_size(8)


def warmup():
    """one throw-away request per path, so that first-use imports and lazy initialisation (zoneinfo tarball
    lookup, parser import) do not make the first execution differ from its replays"""
    from dateutil import tz
    tag = uniq()
    tz.gettz(tag + '5EDT,M3.2.0,M11.1.0')
    tz.gettz('UTC')
    tz.gettz('America/New_York')
    tz.tzstr(tag + 'W5')
    tz.tzoffset(tag, 1)
    tz.gettz.cache_clear()


def eval_schedule(case):
    kind, pattern, bound, max_exec = case
    warnings.simplefilter('ignore')
    warmup()
    gc.disable()
    try:
        make, check, files = sched_harness(kind, pattern, len(pattern))
        st = schedule.explore(make, files, bound, check, max_exec=max_exec)
    finally:
        gc.enable()
        restore_real_locks()
    viols = []
    for pre, choices, verdict, tail in st.failures[:2]:
        viols.append({'kind': verdict[0], 'verdict': list(verdict), 'preemptions': pre, 'schedule': choices,
                      'factory': kind, 'pattern': [list(p) for p in pattern], 'last_points': tail[-12:]})
    return Res(trans=st.points, viols=viols, capped=st.capped,
               extra={'executions': st.executions, 'schedule_failures': len(st.failures), 'replays_checked': st.replays_checked},
               sample={'factory': kind, 'pattern': [list(p) for p in pattern], 'bound': bound, 'executions': st.executions,
                       'outcomes': dict(st.outcomes), 'by_preemptions': dict(st.by_preemptions)})


# ------------------------------------------------------------------ value semantics
def zone_menu():
    from dateutil import tz
    from dateutil.relativedelta import relativedelta, SU
    import io
    from props import posixmenu as pm
    zs = [('tzutc', tz.tzutc()), ('UTC', tz.UTC), ('tzoffset-EST', tz.tzoffset('EST', -18000)),
          ('tzoffset-EST-td', tz.tzoffset('EST', D.timedelta(hours=-5))), ('tzoffset-None0', tz.tzoffset(None, 0)),
          ('tzoffset-EST2', tz.tzoffset('EST', -18001)), ('tzoffset-EDT', tz.tzoffset('EDT', -18000)),
          ('tzstr-EST5EDT', tz.tzstr('EST5EDT')), ('tzstr-EST5EDT-rules', tz.tzstr('EST5EDT,M3.2.0,M11.1.0')),
          ('tzstr-EST5EDT-default-rules', tz.tzstr('EST5EDT4,M4.1.0/2,M10.5.0/2')),
          ('tzstr-AEST', tz.gettz('AEST-10AEDT,M10.1.0,M4.1.0/3')),
          ('tzstr-GMT+3', tz.tzstr('GMT+3')), ('tzstr-GMT+3-posix', tz.tzstr('GMT+3', posix_offset=True)),
          ('tzstr-UTC-5-posix', tz.tzstr('UTC-5', posix_offset=True)), ('tzstr-EST5', tz.tzstr('EST5')),
          ('tzrange-EST', tz.tzrange('EST', -18000, 'EDT')),
          ('tzrange-EST-explicit', tz.tzrange('EST', -18000, 'EDT', -14400,
                                              relativedelta(hours=+2, month=4, day=1, weekday=SU(+1)),
                                              relativedelta(hours=+1, month=10, day=31, weekday=SU(-1)))),
          ('tzrange-EST-otherabbr', tz.tzrange('EST', -18000, 'EDX')),
          ('tzrange-fixed', tz.tzrange('XST', 3600)),
          ('gettz-NY', tz.gettz('America/New_York')), ('tzfile-NY', tz.tzfile('/usr/share/zoneinfo/America/New_York')),
          ('gettz-US/Eastern', tz.gettz('US/Eastern')), ('gettz-Dublin', tz.gettz('Europe/Dublin')),
          ('gettz-UTCfile', tz.gettz('UTC')), ('tzlocal', tz.tzlocal())]
    with open('/usr/share/zoneinfo/Europe/Dublin', 'rb') as f:
        zs.append(('tzfile-stream-Dublin', tz.tzfile(f)))
    # tzlocal objects built under other TZ settings (offsets are fixed at construction): only their equality relation
    # with the other zones is examined here, not copies (a copy re-reads the environment)
    for env in ('UTC+3', 'GMT-2', 'UTC0', 'EST5', 'UTC-5:30', 'EST5EDT,M3.2.0,M11.1.0', 'EST5EDT3,M3.2.0,M11.1.0', 'EST5EDT4:30,M3.2.0,M11.1.0'):
        with pm.tz_env(env):
            zs.append(('tzlocal@' + env, tz.tzlocal()))
    # same transition instants and the same type table, the types taken in opposite phase / from another table
    from refs import tzif_ref
    T = [int((D.datetime(2024, m, 1) - D.datetime(1970, 1, 1)).total_seconds()) for m in (2, 5, 9, 12)]
    types = [(-18000, 0, 'EST'), (-14400, 1, 'EDT')]
    for nm, idx, tt in (('tzfile-syn-phase-a', [1, 0, 1, 0], types), ('tzfile-syn-phase-b', [0, 1, 0, 1], types),
                        ('tzfile-syn-other-names', [1, 0, 1, 0], [(-18000, 0, 'XST'), (-14400, 1, 'XDT')]),
                        ('tzfile-syn-other-offsets', [1, 0, 1, 0], [(-18000, 0, 'EST'), (-12600, 1, 'EDT')])):
        zs.append((nm, tz.tzfile(io.BytesIO(tzif_ref.encode(T, idx, tt)), filename=nm)))
    # fixed zones (no transitions) with one abbreviation and different offsets; a standard-time change to different offsets
    zs.append(('tzfile-syn-fixed-1h', tz.tzfile(io.BytesIO(tzif_ref.encode([], [], [(3600, 0, 'AAA')])), filename='fixed-1h')))
    zs.append(('tzfile-syn-fixed-2h', tz.tzfile(io.BytesIO(tzif_ref.encode([], [], [(7200, 0, 'AAA')])), filename='fixed-2h')))
    zs.append(('tzfile-syn-std-change-a', tz.tzfile(io.BytesIO(tzif_ref.encode(T[:1], [1], [(3600, 0, 'AAA'), (7200, 0, 'BBB')])), filename='chg-a')))
    zs.append(('tzfile-syn-std-change-b', tz.tzfile(io.BytesIO(tzif_ref.encode(T[:1], [1], [(3600, 0, 'AAA'), (10800, 0, 'BBB')])), filename='chg-b')))
    # two different data sets under one file name (two tzdata releases, a file rewritten between two loads)
    zs.append(('tzfile-syn-same-name-1', tz.tzfile(io.BytesIO(tzif_ref.encode(T, [1, 0, 1, 0], types)), filename='Same/Name')))
    zs.append(('tzfile-syn-same-name-2', tz.tzfile(io.BytesIO(tzif_ref.encode(T, [1, 0, 1, 0], [(-18000, 0, 'EST'), (-10800, 1, 'EDT')])),
                                                   filename='Same/Name')))
    zs.append(('tzical', tz.tzical(io.StringIO(pm.vtimezone(pm.make_spec({})))).get()))
    return zs


def eval_values(case):
    # evaluated under a process zone that has a summer time, so that tzlocal objects built under other settings show
    # their own daylight offsets (no other zone class looks at the process zone)
    from props import posixmenu as _pm
    with _pm.tz_env('EST5EDT,M3.2.0,M11.1.0'):
        return _eval_values(case)


def _eval_values(case):
    warnings.simplefilter('ignore')
    zs = zone_menu()
    viols = []
    n = 0
    beh = {name: behaviour(z) for name, z in zs}
    for (na, a), (nb, b) in itertools.product(zs, repeat=2):
        n += 1
        try:
            e1, e2 = (a == b), (b == a)
            ne = (a != b)
        except Exception as e:
            viols.append({'kind': 'eq-exception', 'zones': [na, nb], 'error': repr(e)[:100]})
            continue
        if e1 is NotImplemented or e2 is NotImplemented:
            continue
        if bool(e1) != bool(e2):
            viols.append({'kind': 'eq-not-symmetric', 'zones': [na, nb], 'got': [bool(e1), bool(e2)]})
        if bool(ne) == bool(e1):
            viols.append({'kind': 'ne-inconsistent', 'zones': [na, nb]})
        if na == nb and not e1:
            viols.append({'kind': 'eq-not-reflexive', 'zones': [na]})
        if e1 and [x[0] for x in beh[na]] != [x[0] for x in beh[nb]]:
            # the statement promises equal *offsets* (tzutc == tzoffset(None, 0) although their names differ)
            viols.append({'kind': 'equal-zones-report-different-offsets', 'zones': [na, nb]})
    for name, z in zs:
        if name == 'tzical' or name.startswith('tzlocal@'):
            continue            # VTIMEZONE zones define no copy/pickle support (object.__reduce__) and the statement's list is the factories' zones
        for cname, f in [('copy', copy.copy), ('deepcopy', copy.deepcopy)] + \
                        [('pickle%d' % p, (lambda p: lambda z: pickle.loads(pickle.dumps(z, p)))(p)) for p in (2, 3, 4, 5)]:
            n += 1
            try:
                c = f(z)
            except Exception as e:
                viols.append({'kind': 'copy-or-pickle-exception', 'zone': name, 'how': cname, 'error': repr(e)[:100]})
                continue
            try:
                if not (c == z and z == c) or (c != z):
                    viols.append({'kind': 'copy-not-equal', 'zone': name, 'how': cname})
                elif behaviour(c) != beh[name]:
                    viols.append({'kind': 'copy-behaves-differently', 'zone': name, 'how': cname})
            except Exception as e:
                viols.append({'kind': 'copy-compare-exception', 'zone': name, 'how': cname, 'error': repr(e)[:100]})
    return Res(trans=n, viols=viols[:6], sample={'zones': [n_ for n_, z in zs], 'pairs': len(zs) ** 2})


# ------------------------------------------------------------------ key separation
def near_keys():
    """pairs of requests that differ in exactly one component of the key (and therefore in what is asked for)"""
    td = D.timedelta
    P = []
    for a, b in [(('N', 3600), ('N', td(seconds=3600, microseconds=500000))), (('N', 3600), ('N', -3600)),
                 (('N', 3600), ('M', 3600)), ((None, 0), ('UTC', 0)), (('N', 59), ('N', 60)), (('N', 86399), ('N', -86399)),
                 (('N', 0), ('N', td(microseconds=1))), (('N', td(hours=-1)), ('N', td(days=-1, seconds=82799))),
                 (('N', 3600), ('N', 3600.25)), (('N', td(seconds=1)), ('N', td(seconds=1, microseconds=999999))),
                 (('N', 19800), ('n', 19800))]:
        P.append(('tzoffset', a, b))
    for a, b in [(('GMT+3', False), ('GMT+3', True)), (('UTC-5', False), ('UTC-5', True)), (('EST5EDT', False), ('EST5EDT4', False)),
                 (('EST5EDT', False), ('EST5EDT,M3.2.0,M11.1.0', False)), (('AAA3BBB', False), ('AAA-3BBB', False)),
                 (('AAA3BBB,M3.2.0,M11.1.0', False), ('AAA3BBB,M3.2.0/3,M11.1.0', False)), (('EST5', False), ('est5', False)),
                 (('UTC+3', True), ('UTC+03:30', True))]:
        P.append(('tzstr', a, b))
    for a, b in [('Europe/London', 'Europe/Dublin'), ('UTC', 'Asia/Tokyo'), ('EST5EDT', 'EST5EDT,M3.2.0,M11.1.0'),
                 ('America/New_York', 'America/Toronto'), ('Etc/GMT+3', 'Etc/GMT-3'),
                 # spellings of one zone that are different *names* (each must keep returning its own first object)
                 (':America/New_York', 'America/New_York'), ('/usr/share/zoneinfo/Europe/London', 'Europe/London'),
                 (':/usr/share/zoneinfo/Asia/Tokyo', ':Asia/Tokyo'), ('Europe/London', ':Europe/London')]:
        P.append(('gettz', a, b))
    return P


def eval_empty_name(case):
    """gettz('') - the empty name - while TZ names a zone file: two requests, the first object still referenced"""
    from dateutil import tz
    from props import posixmenu as pm
    warnings.simplefilter('ignore')
    viols = []
    with pm.tz_env(case):
        tz.gettz.cache_clear()
        a = tz.gettz('')
        b = tz.gettz('')
        if a is None or isinstance(a, tz.tzlocal):
            return Res(outcome='resolves-to-tzlocal-not-judged', nontrivial=False)     # tzlocal results are documented as uncached
        if a is not b:
            viols.append({'kind': 'two-live-objects-for-one-key', 'factory': 'gettz', 'scenario': "gettz('') under TZ=%s" % case})
        tz.gettz.cache_clear()
    return Res(trans=2, viols=viols)


def eval_near(case):
    """request a, then b while a is alive (and the other way round, and a-b-a): each object must behave as a freshly
    constructed zone of ITS OWN request does, and a repeated request returns the first object"""
    from dateutil import tz
    warnings.simplefilter('ignore')
    kind, a, b = case
    tag = uniq()

    def norm(k):
        if kind == 'tzoffset':
            return ((tag + k[0]) if k[0] is not None and k[0] not in ('UTC',) else k[0], k[1])
        return k

    def req(k):
        if kind == 'tzoffset':
            return tz.tzoffset(*k)
        if kind == 'tzstr':
            return tz.tzstr(k[0], posix_offset=k[1])
        return tz.gettz(k)

    def model(k):
        if kind == 'tzoffset':
            return tz.tzoffset.instance(*k)
        if kind == 'tzstr':
            return tz.tzstr.instance(k[0], posix_offset=k[1])
        return tz.gettz.nocache(k)
    a, b = norm(a), norm(b)
    viols = []
    n = 0
    for first, second in ((a, b), (b, a)):
        if kind == 'gettz':
            tz.gettz.cache_clear()
        z1 = req(first)
        z2 = req(second)
        z3 = req(first)
        n += 3
        for k, z in ((first, z1), (second, z2)):
            m = model(k)
            if z is None or m is None:
                if (z is None) != (m is None):
                    viols.append({'kind': 'request-not-what-was-asked-for', 'factory': kind, 'request': repr(k), 'got': repr(z)})
                continue
            if behaviour(z) != behaviour(m):
                viols.append({'kind': 'request-not-what-was-asked-for', 'factory': kind, 'request': repr(k),
                              'after': repr(first if k == second else second), 'got': repr(z), 'expected': repr(m)})
        if z3 is not z1 and z1 is not None:
            viols.append({'kind': 'two-live-objects-for-one-key', 'factory': kind, 'scenario': 'near-keys', 'request': repr(first)})
        del z1, z2, z3
    if kind == 'gettz':
        tz.gettz.cache_clear()
    return Res(trans=n, viols=viols[:3], sample={'factory': kind, 'a': repr(a), 'b': repr(b)} if case[1] == ('N', 3600) else None)


def signature(case, detail):
    return {'kind': detail.get('kind'), 'factory': detail.get('factory'), 'zone': detail.get('zone'),
            'key_is_tz_string': detail.get('key_is_tz_string')}


def replay(part, case):
    if part == 'schedules':
        return eval_schedule((case[0], tuple(tuple(p) for p in case[1]), case[2], case[3])).viols
    if part == 'eviction-scenarios':
        return eval_eviction(tuple(case)).viols
    if part == 'histories':
        return eval_history(tuple(case)).viols
    if part == 'dfs-guard':
        return eval_dfs_guard(tuple(case)).viols
    if part == 'empty-name':
        return eval_empty_name(case).viols
    if part == 'near-keys':
        return eval_near((case[0], tuple(case[1]) if not isinstance(case[1], str) else case[1],
                          tuple(case[2]) if not isinstance(case[2], str) else case[2])).viols
    return eval_values(case).viols


def run(ctx):
    history.selftest()
    schedule.selftest()
    T = ctx.thorough
    hist_cases = [('gettz', 3 if not T else 4, 2, 5 if not T else 6), ('tzoffset', 3, 2, 5 if not T else 7),
                  ('tzstr', 3, 2, 5 if not T else 7), ('tzutc', 1, 2, 5)]
    if T:
        hist_cases += [('gettz', 10, 2, 4), ('tzoffset', 10, 2, 4), ('tzstr', 10, 2, 4)]    # pool > strong cache size
    ctx.explore('histories', hist_cases, 'eval_history', chunk=1)
    ctx.explore('dfs-guard', [('gettz', 2, 2, 3 if not T else 4), ('tzoffset', 2, 2, 3 if not T else 4), ('tzstr', 2, 2, 3 if not T else 4)],
                'eval_dfs_guard', chunk=1)
    ev = [(kind, n, g, h, sp) for kind in ('tzoffset', 'tzstr', 'gettz') for n in (0, 1, 7, 8, 9, 10, 17) for g in (False, True)
          for h in (1, 2, 9) for sp in ((0, 1) if kind == 'tzoffset' else (0,))]
    ctx.explore('eviction-scenarios', ev, 'eval_eviction', chunk=8)
    same2 = ((0,), (0,))
    aba = ((0, 1, 0), (1, 0, 1))
    same_twice = ((0, 0), (0,))
    sched = []
    for kind in ('tzoffset', 'tzstr', 'gettz', 'tzutc'):
        sched.append((kind, same2, 2, 60000))
        if kind != 'tzutc':
            sched.append((kind, same_twice, 1 if not T else 2, 60000))
            sched.append((kind, aba, 1, 60000))
    sched.append(('gettz-size0', same2, 2, 60000))
    sched.append(('gettz-resize', ((0,), ('shrink',)), 2, 60000))
    sched.append(('gettz-resize', ((0, 0), ('shrink',)), 1, 60000))
    if T:
        for kind in ('tzoffset', 'tzstr', 'gettz'):
            sched.append((kind, ((0,), (0,), (0,)), 2, 200000))
            sched.append((kind, aba, 2, 200000))
    ctx.explore('schedules', sched, 'eval_schedule', chunk=1)
    ctx.explore('near-keys', near_keys(), 'eval_near', serial=True)
    ctx.explore('empty-name', ['Europe/London', ':America/New_York', 'Asia/Tokyo'], 'eval_empty_name', serial=True)
    ctx.explore('value-semantics', [0], 'eval_values', serial=True)
    ctx.coverage_extra.update({
        'states': ctx.counts['states'],
        'schedules_explored': ctx.counts['executions'],
        'traces_validated_against_impl': ctx.counts['executions'] + ctx.counts['states'] + ctx.counts['dfs_histories'],
        'bounds': {'history_depth': 5 if not T else 7, 'preemption_bound': 2, 'threads': 2 if not T else 3,
                   'granularity': 'source line of tz/_factories.py, tz/tz.py and stdlib weakref.py + lock acquisition'},
        'rule': 'E2: BFS over get/drop/gc/clear/size/nocache histories, canonical state (held keys per slot and epoch, model LRU order, size) '
                '+ un-deduplicated DFS guard; E3: all schedules of the request patterns within the preemption bound; value part: all ordered '
                'pairs of a 23-zone menu and 6 copy/pickle forms of each',
    })
    ctx.assumptions += ['identity is demanded only within one cache_clear epoch (tests/test_tz.py::test_gettz_cache_clear pins a new object after it)',
                        'gc.disable() during an execution; gc.collect() is an explicit operation of the history alphabet',
                        'pickle protocols 0/1 cannot serialise __slots__ classes without __getstate__ (CPython rule): alphabet is protocols 2-5']
