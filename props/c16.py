"""C16 -- relativedelta is a well-behaved value: normalised, comparable, hashable.

E1: all deltas with <= k fields from menus with carries in both signs, float
day/hour fields and every weekday spelling; unary laws on each, binary laws on
ALL ordered pairs of the k<=2 set (thorough: k<=3 set x k<=1 set in addition).
"""
import collections
import datetime as D
import itertools
import warnings

from mc import shape
from mc.core import Res
from refs import reldelta_ref as ref

REL = ref.REL
ABS = ref.ABS

MENU = collections.OrderedDict([
    ('years', [1, -2, 100]),
    ('months', [1, -1, 11, -12, 13, 25]),
    ('days', [1, -1, 40, 1.5]),
    ('weeks', [1, -2]),
    ('hours', [1, -23, 24, -25, 0.5]),
    ('minutes', [59, -60, 61]),
    ('seconds', [-59, 60, 3661]),
    ('microseconds', [1, -999999, 10 ** 6, -(10 ** 6 + 1)]),
    ('leapdays', [1, -1]),
    ('year', [2000]), ('month', [2]), ('day', [31]),
    ('hour', [0, 23]), ('minute', [0]), ('second', [59]), ('microsecond', [0]),
    ('weekday', [(0, 'int'), (0, None), (0, 1), (0, 0), (0, -1), (1, 2), (6, 1), (6, 'int'), (1, None)]),
])
SCALARS = [2, -1, 0.5, 3, 1, 0, -0.5, 1.5, 10, 0.001, -7]
DATES = [D.datetime(2000, 2, 29, 12, 0), D.datetime(2003, 9, 17), D.date(2001, 1, 31)]


def build(f):
    from dateutil.relativedelta import relativedelta, weekday
    kw = dict(f)
    if 'weekday' in kw:
        w, n = kw['weekday']
        kw['weekday'] = w if n == 'int' else weekday(w, n)
    return relativedelta(**kw)


def norm_ok(d):
    return (abs(d.months) < 12 and abs(d.hours) < 24 and abs(d.minutes) < 60 and
            abs(d.seconds) < 60 and abs(d.microseconds) < 10 ** 6)


def tot(d):
    return (d.years * 12 + d.months,
            ((d.days * 24 + d.hours) * 60 + d.minutes) * 60 * 10 ** 6 + d.seconds * 10 ** 6 + d.microseconds)


def ftot(f):
    return (f.get('years', 0) * 12 + f.get('months', 0),
            (((f.get('days', 0) + 7 * f.get('weeks', 0)) * 24 + f.get('hours', 0)) * 60 + f.get('minutes', 0)) * 60 * 10 ** 6
            + f.get('seconds', 0) * 10 ** 6 + f.get('microseconds', 0))


def fields(d):
    return {k: getattr(d, k) for k in REL + ABS + ('leapdays', 'weekday')}


def key(d):
    """own fields with the weekday's n canonicalised (absent, 0 and 1 are the same request)."""
    w = d.weekday
    if w is not None:
        w = (w.weekday, w.n or 1)
    return tuple(getattr(d, k) for k in REL + ABS + ('leapdays',)) + (w,)


def is_int_delta(d):
    return all(isinstance(getattr(d, k), int) for k in REL)


def eval_unary(f):
    from dateutil.relativedelta import relativedelta
    warnings.simplefilter('ignore')
    v = []

    def fail(kind, **info):
        info['kind'] = kind
        v.append(info)
    try:
        d = build(f)
    except Exception as e:
        return Res(viols=[{'kind': 'ctor-exception', 'error': repr(e)}])
    n = 0
    if not norm_ok(d):
        fail('not-normalised', op='ctor', result=d)
    if tot(d) != ftot(f):
        fail('total-not-preserved', op='ctor', result=d)
    try:
        d2 = relativedelta(**fields(d))
        if not (d2 == d) or d2 != d:
            fail('rebuild-not-equal', result=d2)
        elif hash(d2) != hash(d):
            fail('rebuild-hash-differs', result=d2)
    except Exception as e:
        fail('rebuild-exception', error=repr(e))
    if not (d == d) or (d != d):
        fail('eq-not-reflexive')
    try:
        hash(d)
    except Exception as e:
        fail('hash-exception', error=repr(e))
    nd = -d
    if -(nd) != d:
        fail('neg-neg', result=-(nd))
    s = d + nd
    if any(getattr(s, k) for k in REL):
        fail('d-plus-neg-d-has-relative-part', result=s)
    if tot(nd) != tuple(-x for x in tot(d)):
        fail('total-not-preserved', op='neg', result=nd)
    nf = ref.normalise({k: v_ for k, v_ in f.items() if k in REL + ('weeks',)}) if all(
        isinstance(f.get(k, 0), int) for k in REL + ('weeks',)) else None
    if nf is not None:
        for k in REL:
            if getattr(d, k) != nf[k]:
                fail('field-differs-from-reference-normalisation', field=k, got=getattr(d, k), expected=nf[k])
                break
        expect_bool = any(nf.values()) or any(k in f for k in ABS + ('leapdays', 'weekday'))
        if bool(d) != bool(expect_bool):
            fail('bool', got=bool(d), expected=bool(expect_bool))
    for name, r in (('neg', nd), ('abs', abs(d))):
        n += 1
        if not norm_ok(r):
            fail('not-normalised', op=name, result=r)
    a = abs(d)
    if any(getattr(a, k) < 0 for k in REL):
        fail('abs-negative-field', result=a)
    for k in SCALARS:
        n += 1
        try:
            m = d * k
            if not norm_ok(m):
                fail('not-normalised', op='mul', scalar=k, result=m)
            if (k * d) != m:
                fail('rmul-differs', scalar=k)
            if is_int_delta(d):
                if k == 1 and m != d:
                    fail('mul-by-one', result=m)
                if k == -1 and m != nd:
                    fail('mul-by-minus-one', result=m)
                if k == 2 and m != d + d:
                    fail('mul-by-two-is-not-d-plus-d', result=m)
                if k == 0 and any(getattr(m, x) for x in REL):
                    fail('mul-by-zero-has-relative-part', result=m)
            if k != 0:
                q = d / k
                if not norm_ok(q):
                    fail('not-normalised', op='div', scalar=k, result=q)
                if is_int_delta(d) and k == 1 and q != d:
                    fail('div-by-one', result=q)
        except Exception as e:
            fail('scalar-op-exception', scalar=k, error=repr(e))
    try:
        nn = d.normalized()
        if not norm_ok(nn):
            fail('not-normalised', op='normalized', result=nn)
        if any(getattr(nn, k) != int(getattr(nn, k)) for k in REL):
            fail('normalized-not-integer', result=nn)
        if is_int_delta(d) and nn != d:
            fail('normalized-changes-integer-delta', result=nn)
        t1, t2 = tot(nn), tot(d)
        if t1[0] != t2[0] or abs(t1[1] - t2[1]) > 1:
            fail('total-not-preserved', op='normalized', result=nn)
    except Exception as e:
        fail('normalized-exception', error=repr(e))
    # timedelta addition keeps normalisation and total
    try:
        td = D.timedelta(days=1, seconds=86399, microseconds=999999)
        r = d + td
        if not norm_ok(r):
            fail('not-normalised', op='add-timedelta', result=r)
        if tot(r) != (tot(d)[0], tot(d)[1] + (td.days * 86400 + td.seconds) * 10 ** 6 + td.microseconds):
            fail('total-not-preserved', op='add-timedelta', result=r)
    except Exception as e:
        fail('add-timedelta-exception', error=repr(e))
    return Res(trans=n + 8, viols=v[:4], sample={'fields': f, 'repr': repr(d)} if len(f) == 2 and 'weekday' in f and 'hours' in f else None)


_OBJS = {}


def objs(k):
    if k not in _OBJS:
        warnings.simplefilter('ignore')
        fs = list(shape.shapes(MENU, k))
        _OBJS[k] = (fs, [build(f) for f in fs])
    return _OBJS[k]


def eval_pairs(case):
    """case = (k_left, index i, k_right): pairs object i of the k_left set with every object of the k_right set."""
    kl, i, kr = case
    warnings.simplefilter('ignore')
    fl, ol = objs(kl)
    fr, orr = objs(kr)
    a = ol[i]
    ka = key(a)
    ta = tot(a)
    v = []

    def fail(kind, j, **info):
        info.update(kind=kind, left=fl[i], right=fr[j])
        v.append(info)
    n = 0
    neq = 0
    for j, b in enumerate(orr):
        n += 1
        e = (a == b)
        if e != (b == a):
            fail('eq-not-symmetric', j)
        if (a != b) == e:
            fail('ne-inconsistent', j)
        same = (ka == key(b))
        if same and not e:
            fail('same-fields-not-equal', j)
        if e and not same:
            fail('equal-but-different-fields', j)
        if e:
            neq += 1
            if hash(a) != hash(b):
                fail('equal-but-hash-differs', j)
            for dt in DATES:
                try:
                    if dt + a != dt + b:
                        fail('equal-but-different-sums', j, date=dt)
                except (ValueError, OverflowError):
                    pass
        tb = tot(b)
        s = a + b
        if not norm_ok(s):
            fail('not-normalised', j, op='add', result=s)
        if tot(s) != (ta[0] + tb[0], ta[1] + tb[1]):
            fail('total-not-preserved', j, op='add', result=s)
        s = a - b
        if not norm_ok(s):
            fail('not-normalised', j, op='sub', result=s)
        if tot(s) != (ta[0] - tb[0], ta[1] - tb[1]):
            fail('total-not-preserved', j, op='sub', result=s)
        if len(v) > 6:
            break
    return Res(trans=n, viols=v[:4], extra={'pairs': n, 'equal_pairs': neq}, nontrivial=True)


def eval_reject(case):
    from dateutil.relativedelta import relativedelta
    import decimal
    import fractions

    def val(x):
        if isinstance(x, str) and x.startswith('Decimal:'):
            return decimal.Decimal(x[8:])
        if isinstance(x, str) and x.startswith('Fraction:'):
            return fractions.Fraction(x[9:])
        return x
    try:
        relativedelta(**{k: val(v_) for k, v_ in case.items()})
    except ValueError:
        return Res(outcome='rejected')
    except Exception as e:
        return Res(viols=[{'kind': 'non-integer-years-months-wrong-exception', 'error': repr(e)}])
    return Res(viols=[{'kind': 'non-integer-years-months-accepted'}])


def signature(case, detail):
    sig = {'kind': detail.get('kind')}
    if detail.get('kind') in ('equal-but-hash-differs', 'rebuild-hash-differs'):
        l, r = detail.get('left', {}), detail.get('right', {})
        sig['weekday_only_difference'] = ('weekday' in l and 'weekday' in r and
                                          {k: v for k, v in l.items() if k != 'weekday'} ==
                                          {k: v for k, v in r.items() if k != 'weekday'})
    return sig


def replay(part, case):
    if part.startswith('unary'):
        return eval_unary(case).viols
    if part.startswith('pairs'):
        return eval_pairs(tuple(case)).viols
    return eval_reject(case).viols


def run(ctx):
    ref.selftest()
    k = ctx.pick(3, 4)
    us = list(shape.shapes(MENU, k))
    ctx.explore('unary-k<=%d' % k, us, 'eval_unary', chunk=128, space_size=shape.space_size(MENU, k))
    n2 = len(objs(2)[0])
    ctx.explore('pairs-k2xk2', [(2, i, 2) for i in range(n2)], 'eval_pairs', chunk=4)
    if ctx.thorough:
        n3 = len(objs(3)[0])
        ctx.explore('pairs-k3xk1', [(3, i, 1) for i in range(n3)], 'eval_pairs', chunk=64)
    rej = [{'years': 1.5}, {'months': 0.5}, {'years': -0.25, 'days': 1}, {'months': 2.000001}, {'years': 1, 'months': 1.5},
           # non-integers of the other numeric types (written as text so that replay files can carry them)
           {'years': 'Decimal:1.5'}, {'months': 'Decimal:-0.5'}, {'years': 'Fraction:3/2'}, {'months': 'Fraction:-7/3'},
           {'years': 1e-9}, {'years': 'Decimal:2.0000000000000000001'}]
    ctx.explore('reject-non-integer', rej, 'eval_reject', serial=True)
    ctx.coverage_extra.update({
        'states': ctx.counts['pairs'] + len(us),
        'bounds': {'deviation_bound_k': k, 'pair_set': 'all ordered pairs of the k<=2 set (%d objects)' % n2},
        'rule': 'all field shapes with <= k fields (unary laws, scalar laws) and ALL ordered pairs of the k<=2 set '
                '(binary laws, eq/hash contract); distinct_nontrivial counts shapes/rows',
        'menus': {k_: [str(x) for x in v] for k_, v in MENU.items()},
    })
    ctx.assumptions += ['floats in the menus are dyadic (0.5, 1.5) so totals compare exactly']
