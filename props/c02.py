"""C02 -- parse() inverts every supported unambiguous date/time rendering.

E1: ~45 templates x boundary datetimes (10 years x 11 month/day pairs x 9 times) x
offset forms and values x flags x process TZ settings; two-digit years exhaustively
(yy = 00..99) under fake "current years".  Oracle: the renderer
refs/parse_render.py is the inverse: expected = datetime truncated to the rendered
precision, naive iff no offset was rendered, else aware with that utcoffset().
"""
import datetime as D
import types
import warnings

from mc.core import Res, HarnessError
from props.posixmenu import tz_env
from refs import parse_render as R

YEARS = [100, 999, 1000, 1900, 1999, 2000, 2003, 2024, 2068, 9999]
EARLY_YEARS = [1, 31, 32, 99]
MDS = [(1, 1), (1, 31), (2, 28), (2, 29), (3, 1), (5, 6), (9, 25), (10, 10), (11, 30), (12, 5), (12, 12), (12, 31)]
TIMES = [(0, 0, 0, 0), (0, 0, 0, 1), (12, 0, 0, 0), (12, 30, 59, 999999), (23, 59, 59, 500000), (1, 2, 3, 4000),
         (11, 59, 0, 0), (13, 0, 1, 100), (10, 36, 28, 120000),
         # microsecond values that 1e6 * float('0.xxxxxx') truncates one too low
         (10, 36, 0, 249), (7, 8, 9, 251), (22, 1, 59, 493)]
DEFAULT = D.datetime(1987, 7, 17)
TZENVS = [None, 'Europe/London', 'America/New_York', 'UTC0', 'UTC0BST,M3.5.0/1,M10.5.0/2', 'GMT0BST,M3.5.0/1,M10.5.0/2']


def datetimes(year):
    out = []
    for (m, d) in MDS:
        try:
            D.date(year, m, d)
        except ValueError:
            continue
        for t in TIMES:
            out.append(D.datetime(year, m, d, *t))
    return out


def check(got, exp, tzexp):
    if not isinstance(got, D.datetime):
        return 'not-a-datetime'
    if got.replace(tzinfo=None) != exp:
        return 'wrong-datetime'
    if tzexp is None:
        return None if got.tzinfo is None else 'aware-but-no-offset-rendered'
    if got.tzinfo is None:
        return 'naive-but-offset-rendered'
    if got.utcoffset().total_seconds() != tzexp:
        return 'wrong-offset'
    return None


def eval_template(case):
    from dateutil import parser
    warnings.simplefilter('ignore')
    name, year, tzenv = case
    f, prec, kw = R.T[name]
    viols = []
    kinds = set()
    n = 0
    with tz_env(tzenv):
        for d in datetimes(year):
            base = f(d)
            exp = R.PREC[prec](d)
            variants = [(base, None, 'none')]
            if prec != 'd':
                for form in R.OFFSET_FORMS:
                    if tzenv is not None and form not in (' UTC', ' GMT', 'Z', ' +hh:mm'):
                        continue              # other process zones matter only where a zone *name* is rendered
                    for off in R.OFFSET_VALUES:
                        suf = R.render_offset(form, off)
                        if suf is None:
                            continue
                        if suf[0] in 'Z+-' and base[-1].isalpha():
                            continue          # nobody renders '...AMZ' / '...PM+0300'
                        if suf[0] in 'Z+-' and base[-4:].isdigit() and base[-5] == ' ':
                            continue          # a designator glued to a trailing year ('... 2003+0300', '... 2003Z')
                        variants.append((base + suf, off, form))
            # the same flags given explicitly to a parser whose parserinfo prefers the opposite: the explicit ones decide
            variants.append((base, None, 'explicit-flags-over-parserinfo'))
            for text, tzexp, form in variants:
                n += 1
                try:
                    if form == 'explicit-flags-over-parserinfo':
                        df, yf = bool(kw.get('dayfirst')), bool(kw.get('yearfirst'))
                        got = parser.parser(parser.parserinfo(dayfirst=not df, yearfirst=not yf)).parse(
                            text, default=DEFAULT, dayfirst=df, yearfirst=yf)
                    else:
                        got = parser.parse(text, default=DEFAULT, **kw)
                except Exception as e:
                    got = e
                why = check(got, exp, tzexp) if not isinstance(got, Exception) else 'valid-rendering-rejected'
                if why:
                    key = (why, form)
                    if key not in kinds and len(viols) < 5:
                        kinds.add(key)
                        viols.append({'kind': why, 'template': name, 'text': text, 'flags': kw, 'offset_form': form,
                                      'got': got if not isinstance(got, Exception) else repr(got)[:100],
                                      'expected': exp, 'expected_offset': tzexp, 'tzenv': tzenv,
                                      'year_lt_100': year < 100})
    return Res(trans=n, viols=viols,
               sample={'template': name, 'example': f(D.datetime(2003, 9, 25, 10, 36, 28, 120000)), 'precision': prec, 'flags': kw}
               if year == 2003 and tzenv is None else None)


class fake_clock(object):
    """parser clock seam: dateutil.parser._parser.time answers localtime() with the given year while the block runs
    (both while a parserinfo is built and while it is used - a tree may read the clock at either moment)"""

    def __init__(self, year):
        self.year = year

    def __enter__(self):
        import dateutil.parser._parser as P
        self.P = P
        self.real = getattr(P, 'time', None)
        if self.year is None or self.real is None or not hasattr(self.real, 'localtime'):
            self.real = None
            return self
        real, year = self.real, self.year

        class Clock(object):
            def __getattr__(self, name):
                return getattr(real, name)

            def localtime(self, *a):
                lt = real.localtime(*a)
                return types.SimpleNamespace(tm_year=year, tm_mon=lt.tm_mon, tm_mday=lt.tm_mday)
        P.time = Clock()
        return self

    def __exit__(self, *a):
        if self.real is not None:
            self.P.time = self.real


def clock_seam_binds():
    """does the pivot follow the fake clock?  '50' is 2050 seen from 2049 and 1950 seen from any year before 2000 or
    after 2000 that is not within 50 years before 2050; decided by behaviour, not by private attributes"""
    from dateutil import parser
    import time as _time
    real_year = _time.localtime().tm_year
    if abs(real_year - 2049) < 3:
        return True              # cannot tell the two apart; assume bound (the oracle then uses the fake year)
    with fake_clock(2049):
        try:
            got = parser.parser(parser.parserinfo(yearfirst=True)).parse('50-03-04', default=DEFAULT).year
        except Exception:
            return False
    return got == 2050


def eval_two_digit(case):
    from dateutil import parser
    import time as _time
    warnings.simplefilter('ignore')
    name, clock = case
    f, kw = R.T2[name]
    if clock is not None and not clock_seam_binds():
        # this tree does not read the year through the seam: only the real clock can be examined
        return Res(outcome='clock-seam-not-bound', nontrivial=False, extra={'clock_seam_not_bound': 1})
    current = clock if clock is not None else _time.localtime().tm_year
    viols = []
    n = 0
    with fake_clock(clock):
        info = parser.parserinfo(dayfirst=bool(kw.get('dayfirst')), yearfirst=bool(kw.get('yearfirst')))
        for yy in range(100):
            for (m, d) in ((3, 4), (11, 12), (12, 31), (1, 1)):
                n += 1
                ey = R.expected_two_digit_year(yy, current)
                if not 1 <= ey <= 9999:
                    continue
                text = f(D.date(2000 + yy if yy else 2000, m, d).replace(year=1900 + yy if yy else 2000))
                try:
                    got = parser.parser(info).parse(text, default=DEFAULT)
                except Exception as e:
                    viols.append({'kind': 'valid-rendering-rejected', 'template': name, 'text': text, 'clock': current,
                                  'error': repr(e)[:100]})
                    continue
                if (got.year, got.month, got.day) != (ey, m, d):
                    viols.append({'kind': 'two-digit-year-wrong', 'template': name, 'text': text, 'clock': current,
                                  'got': got, 'expected_year': ey})
    return Res(trans=n, viols=viols[:4], sample={'template': name, 'clock': current, 'example': f(D.date(1999, 3, 4))})


def signature(case, detail):
    return {'kind': detail.get('kind'), 'year_lt_100': detail.get('year_lt_100'), 'template': detail.get('template')}


def replay(part, case):
    if part == 'two-digit-years':
        return eval_two_digit(tuple(case)).viols
    return eval_template(tuple(case)).viols


def run(ctx):
    years = YEARS + EARLY_YEARS
    envs = TZENVS if ctx.thorough else [None] + ctx.rotate(TZENVS[1:], 1)
    cases = [(name, y, env) for name in R.T for y in years for env in envs]
    ctx.explore('templates', cases, 'eval_template', chunk=6)
    if not ctx.thorough:
        # local zones that *name* their standard time UTC / GMT and have a summer time: a rendered 'Z', ' UTC', ' GMT'
        # or zero offset is UTC all year (quick: a few templates, two years; thorough has them in the full product)
        few = ['iso_T_s', 'iso_sp_m', 'ctime', 'rfc2822', 'compactT6', 'us_slash_time', 'iso_hms', 'time_then_iso']
        ctx.explore('utc-designators-under-local-utc-names',
                    [(n, y, e) for n in few for y in (2003, 2024) for e in TZENVS[4:] if e not in envs], 'eval_template', chunk=2)
    two = [(name, clock) for name in R.T2 for clock in (1999, 2000, 2049, 2050, 2099, None)]
    ctx.explore('two-digit-years', two, 'eval_two_digit', chunk=2)
    ctx.coverage_extra.update({
        'bounds': {'templates': len(R.T), 'years': years, 'month_days': MDS, 'times': len(TIMES), 'offset_forms': R.OFFSET_FORMS,
                   'offset_values': R.OFFSET_VALUES, 'tz_envs': [str(e) for e in envs], 'two_digit_templates': list(R.T2)},
        'rule': 'one case per (template, year, process TZ): every month/day x time x offset form x value; two-digit years: yy=00..99 x 4 dates '
                'x 6 templates x 6 clocks; transitions = strings parsed',
    })
    ctx.assumptions += ['refs/parse_render.py renderer is the inverse tested against',
                        'parser clock seam: dateutil.parser._parser.time proxy while a parserinfo is built and used (bound iff the pivot follows it; otherwise only the real clock is examined)',
                        'process zone seam: TZ + tzset']
