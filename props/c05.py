"""C05 -- wall times are classified as normal, ambiguous or imaginary per PEP 495.

For every zone of C04 and every transition with offsets a->b: wall seconds at and
around both edges lo = t+min(a,b), hi = t+max(a,b), the middle, and +-2 h
(thorough: every second within 3 s of the edges, every minute of [lo-2h, hi+2h]),
fold in {0,1}.  Oracle: number of UTC pre-images of the wall time from the
independent timeline.
"""
import datetime as D
import warnings

from mc.core import Res
from props import tzwalk, tzzones
from refs import tzif_ref

_CFG = {'thorough': False}
EPOCH = tzif_ref.EPOCH


def worker_setup(arg):
    _CFG['thorough'] = bool(arg)


def wall_probes(tl):
    ws = set()
    prev_off = None
    for t in tl.transitions:
        if not (tl.defined(t - 1) and tl.defined(t)):
            continue
        a, b = tl.at(t - 1)[0], tl.at(t)[0]
        lo, hi = t + min(a, b), t + max(a, b)
        base = [lo - 7200, lo - 1, lo, lo + 1, (lo + hi) // 2, hi - 1, hi, hi + 1, hi + 7200, lo - 3600, hi + 3600]
        ws.update(base)
        if _CFG['thorough']:
            for e in range(-3, 4):
                ws.add(lo + e)
                ws.add(hi + e)
            w = lo - 7200
            while w <= hi + 7200:
                ws.add(w)
                w += 60
    return sorted(ws)


def eval_zone(case):
    from dateutil import tz
    warnings.simplefilter('ignore')
    viols = []
    kinds = set()
    n = 0
    hist = [0, 0, 0]
    skipped3 = 0

    def fail(kind, **info):
        if kind not in kinds and len(viols) < 4:
            kinds.add(kind)
            info['kind'] = kind
            info['zone'] = tl.label
            info['transitions_closer_than_offset_change'] = tl.crowded()
            viols.append(info)
    with tzzones.open_case(case) as (z, tl):
        if case[0] == 'foreign' and tl.crowded():
            # what a hand-written class should answer between transitions closer together than the offset change is
            # this harness's own invention: not judged (the library's classes are judged there, see the known finding)
            return Res(trans=0, nontrivial=False, extra={'foreign_crowded_not_judged': 1})
        lo_ok, hi_ok = -2 ** 31 + 86400 * 3, 2 ** 31 - 86400 * 3
        for w in wall_probes(tl):
            if not (lo_ok <= w <= hi_ok):
                continue
            pre = tl.preimages(w)
            if pre is None:
                continue
            if len(pre) > 2:
                skipped3 += 1
                continue
            n += 1
            hist[len(pre)] += 1
            wall = EPOCH + D.timedelta(seconds=w)
            try:
                ex = tz.datetime_exists(wall, z)
                am = tz.datetime_ambiguous(wall, z)
                o0 = wall.replace(tzinfo=z, fold=0).utcoffset().total_seconds()
                o1 = wall.replace(tzinfo=z, fold=1).utcoffset().total_seconds()
            except Exception as e:
                fail('classification-exception', wall=wall, error=repr(e)[:120])
                continue
            info = dict(wall=wall, preimages=pre, exists=ex, ambiguous=am, offset_fold0=o0, offset_fold1=o1)
            # the three documented call forms must agree: (naive, tz), (aware), (aware in another zone, tz)
            try:
                forms = {'aware': (tz.datetime_exists(wall.replace(tzinfo=z)), tz.datetime_ambiguous(wall.replace(tzinfo=z))),
                         'aware+tz': (tz.datetime_exists(wall.replace(tzinfo=tz.UTC), z),
                                      tz.datetime_ambiguous(wall.replace(tzinfo=tz.UTC), z)),
                         'fold1': (tz.datetime_exists(wall.replace(fold=1), z), tz.datetime_ambiguous(wall.replace(fold=1), z))}
            except Exception as e:
                fail('classification-exception', wall=wall, error=repr(e)[:120])
                continue
            for fname, (fe, fa) in forms.items():
                if (fe, fa) != (ex, am):
                    fail('call-forms-disagree', form=fname, got=(fe, fa), **info)
            if ex != (len(pre) >= 1):
                fail('datetime_exists-wrong', **info)
            if am != (len(pre) == 2):
                fail('datetime_ambiguous-wrong', **info)
            if len(pre) == 2:
                if w - o0 != pre[0] or w - o1 != pre[1]:
                    fail('fold-does-not-select-earlier-later', **info)
                for f, u in enumerate(pre):
                    loc = tzzones.utc_aware(u).astimezone(z)
                    if loc.replace(tzinfo=None) != wall or loc.fold != f:
                        fail('fold-not-set-from-utc', utc=u, got_wall=loc.replace(tzinfo=None), got_fold=loc.fold, **info)
            elif len(pre) == 1:
                if not (o0 == o1 == w - pre[0]):
                    fail('fold-changes-offset-of-unambiguous-time', **info)
            try:
                r = tz.resolve_imaginary(wall.replace(tzinfo=z))
            except Exception as e:
                fail('resolve_imaginary-exception', wall=wall, error=repr(e)[:120])
                continue
            if len(pre) >= 1:
                if r.replace(tzinfo=None) != wall:
                    fail('resolve_imaginary-moved-existing-time', got=r.replace(tzinfo=None), **info)
            else:
                # width of the gap = difference of the offsets around it
                uu = w - max(tl.offsets)
                cand = [t for t in tl.transitions if tl.defined(t - 1) and t + min(tl.at(t - 1)[0], tl.at(t)[0]) <= w < t + max(tl.at(t - 1)[0], tl.at(t)[0])]
                if cand:
                    t = cand[0]
                    gap = abs(tl.at(t)[0] - tl.at(t - 1)[0])
                    moved = (r.replace(tzinfo=None) - wall).total_seconds()
                    if moved != gap:
                        fail('resolve_imaginary-wrong-shift', got=r.replace(tzinfo=None), gap=gap, **info)
                    elif not tz.datetime_exists(r):
                        fail('resolve_imaginary-result-does-not-exist', got=r.replace(tzinfo=None), **info)
    return Res(trans=n, viols=viols, nontrivial=hist[0] + hist[2] > 0,
               extra={'imaginary_walls': hist[0], 'normal_walls': hist[1], 'ambiguous_walls': hist[2],
                      'skipped_three_or_more_preimages': skipped3, 'transitions_walked': len(tl.transitions)},
               sample={'zone': tl.label, 'walls': n, 'imaginary': hist[0], 'ambiguous': hist[2]}
               if (case[0] == 'posix' and len(case[1]) == 1 and case[1][0][0] == 'offsets') or case[1] in ('Europe/Dublin', 'negdst') else None)


def signature(case, detail):
    return {'kind': detail.get('kind'), 'zone_kind': case[0], 'zone_class': case[2] if case[0] == 'posix' else None,
            'transitions_closer_than_offset_change': detail.get('transitions_closer_than_offset_change')}


def replay(part, case):
    _CFG['thorough'] = part.endswith('thorough')
    c = tuple(case)
    if c[0] == 'foreign':
        c = ('foreign', tuple(c[1]), c[2])
    if c[0] == 'posix':
        c = ('posix', tuple(tuple(x) for x in c[1]), c[2])
    return eval_zone(c).viols


def run(ctx):
    tzif_ref.selftest()
    cases = tzwalk.zone_cases()
    ctx.explore('tzfile-' + ctx.tier, cases, 'eval_zone', chunk=4, setup_arg=ctx.thorough)
    k = 3          # both tiers: the thorough tier spends its budget on probe density (every second near the edges, every
                   # minute of the +-2 h window) and on every file as a hand-written class; k=4 with dense probes does not finish in an hour
    pc = tzzones.posix_cases(k)
    ctx.explore('rule-zones-' + ctx.tier, pc, 'eval_zone', chunk=16, setup_arg=ctx.thorough)
    ctx.explore('fixed-' + ctx.tier, tzzones.FIXED, 'eval_zone', chunk=4, setup_arg=ctx.thorough)
    fc = tzzones.foreign_cases(ctx.pick(1, 2), ctx.thorough)
    ctx.explore('foreign-classes-' + ctx.tier, fc, 'eval_zone', chunk=4, setup_arg=ctx.thorough)
    ctx.coverage_extra.update({
        'states': ctx.counts['imaginary_walls'] + ctx.counts['normal_walls'] + ctx.counts['ambiguous_walls'],
        'bounds': {'tzif_zones': len(cases), 'rule_specs_deviation_k': k, 'rule_zone_cases': len(pc), 'foreign_class_cases': len(fc)},
        'wall_time_classes': {'imaginary': ctx.counts['imaginary_walls'], 'normal': ctx.counts['normal_walls'],
                              'ambiguous': ctx.counts['ambiguous_walls'],
                              'skipped_3plus_preimages': ctx.counts['skipped_three_or_more_preimages']},
        'rule': 'per zone, wall seconds at/around both edges of every gap and fold x fold in {0,1}; states = wall times classified; '
                'non-trivial = zone contributed at least one imaginary or ambiguous wall time',
    })
    ctx.assumptions += ['pre-image count from the independent timeline (refs/tzif_ref, refs/posix_tz_ref)',
                        'wall times with >= 3 pre-images cannot be expressed with one fold bit: counted and skipped']
