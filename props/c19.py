"""C19 -- easter() returns the canonical Easter Sunday for each method.

Exhaustive over the documented validity ranges (a finite space): the explored
"state space" is the set of (year, method) pairs; every one is a transition of
the implementation compared with the reference model.
"""
import datetime as D

from mc.core import Res
from refs import easter_ref

WEST, ORTH, JUL = 3, 2, 1
INVALID = [0, 4, -1, 100, -3, 7]


def cases(ctx):
    for y in range(1583, 4100):
        yield (y, WEST)
        yield (y, ORTH)
    for y in range(326, 10000):
        yield (y, JUL)
    for m in INVALID:
        for y in (326, 1583, 2000, 2024, 4099, 9999):
            yield (y, m)


def eval_case(case):
    from dateutil.easter import easter
    y, m = case
    v = []
    try:
        got = easter(y, m)
    except ValueError:
        got = 'ValueError'
    except Exception as e:
        got = 'other:%s' % type(e).__name__
    if m in INVALID:
        if got != 'ValueError':
            v.append({'kind': 'invalid-method-accepted', 'got': got})
        return Res(outcome='invalid-method', viols=v)
    if not isinstance(got, D.date) or isinstance(got, D.datetime):
        v.append({'kind': 'not-a-date', 'got': got})
        return Res(viols=v)
    g = (got.year, got.month, got.day)
    if m == WEST:
        exp = easter_ref.western(y)
        if g != exp:
            v.append({'kind': 'western-mismatch', 'got': g, 'expected': exp})
        if got.weekday() != 6 or not (D.date(y, 3, 22) <= got <= D.date(y, 4, 25)):
            v.append({'kind': 'western-not-sunday-in-range', 'got': g})
    elif m == ORTH:
        exp = easter_ref.orthodox(y)
        if g != exp:
            v.append({'kind': 'orthodox-mismatch', 'got': g, 'expected': exp})
        if got.weekday() != 6:
            v.append({'kind': 'orthodox-not-sunday', 'got': g})
    else:
        exp = easter_ref.julian(y)
        if g != exp:
            v.append({'kind': 'julian-mismatch', 'got': g, 'expected': exp})
    return Res(outcome='m%d' % m, viols=v, key=(m, g[1], g[2]),
               sample={'year': y, 'method': m, 'result': g} if y in (1583, 2024, 9999) else None)


def signature(case, detail):
    return {'kind': detail.get('kind'), 'method': case[1]}


def replay(part, case):
    r = eval_case(tuple(case))
    return r.viols


def run(ctx):
    easter_ref.selftest()
    cs = list(cases(ctx))
    ctx.explore('all-years', cs, 'eval_case', chunk=512, space_size=len(cs))
    ctx.coverage_extra['rule'] = (
        'every year of the documented ranges (1583..4099 methods 2,3; 326..9999 method 1) plus '
        'invalid methods; distinct_nontrivial counts distinct (method, month, day) results')
    ctx.coverage_extra['states'] = len(cs)
    ctx.coverage_extra['reference_crosscheck'] = 0
    ctx.assumptions += ['CPython datetime.date ordinal/weekday arithmetic',
                        'reference: Meeus/Jones/Butcher and Meeus Julian algorithms (refs/easter_ref.py), '
                        'self-checked for Sunday-ness and range on every run']
