"""C07 -- isoparse inverts every ISO-8601 rendering of a datetime.

E1: dates (week-year and leap boundaries) x 6 date styles x times x
  A: every time form (5 precisions, 1..9 fraction digits, '.'/',', basic/extended) x every offset form/value, 'T', str
  B: every separator (default parser: 'T', ' ', 'x', '_'; configured 'T'; configured ' ') x reduced forms
  C: input types bytes / stream x reduced forms
plus 24:00 forms, date-only / time-only / offset-only entry points.
Oracle: the renderer refs/iso_ref.py is the inverse: expected = datetime truncated to the rendered precision.
"""
import datetime as D
import io
import itertools
import warnings

from mc.core import Res
from refs import iso_ref

YEARS = [1, 99, 100, 999, 1000, 1900, 2000, 2004, 2015, 2020, 2024, 9999]
DAYS = [(1, 1), (1, 3), (1, 4), (2, 28), (2, 29), (3, 1), (6, 15), (12, 28), (12, 29), (12, 31)]
TIMES = [D.time(0, 0, 0, 0), D.time(0, 0, 0, 1), D.time(12, 30, 59, 999999), D.time(23, 59, 59, 500000),
         D.time(1, 2, 3, 4000), D.time(10, 36, 28, 123456)]
OFFSETS = [None, 0, 3600, -12600, 86340, -86340]
OFF_FORMS = ['Z', 'z', 'hh:mm', 'hhmm', 'hh', '-00:00']


_PRELUDE = []


def prelude():
    """once per process, before anything else is parsed: the documented parse_tzstr(..., zero_as_utc=False) is asked
    for every zero spelling - whatever that call leaves behind must not change how isoparse reads a zero offset"""
    if _PRELUDE:
        return
    _PRELUDE.append(1)
    from dateutil.parser import isoparser
    p = isoparser()
    for z in ('Z', 'z', '+00:00', '-00:00', '+0000', '-0000', '+00', '-00'):
        try:
            p.parse_tzstr(z, zero_as_utc=False)
        except Exception:
            pass


def time_forms(t, full=True):
    out = []
    for prec, ext in (('h', True), ('m', True), ('m', False), ('s', True), ('s', False)):
        out.append(iso_ref.render_time(t, prec, ext))
    nds = (1, 2, 3, 6, 7, 9, 10, 15) if full else (6,)      # 'any number of fraction digits'
    for nd in nds:
        for mark in ('.', ','):
            for ext in (True, False):
                if not full and not (mark == '.' and ext):
                    continue
                out.append(iso_ref.render_time(t, 'f', ext, nd, mark))
    return out


def reduced_time_forms(t):
    return [iso_ref.render_time(t, 'h', True), iso_ref.render_time(t, 'm', True), iso_ref.render_time(t, 's', False),
            iso_ref.render_time(t, 'f', True, 6, '.'), iso_ref.render_time(t, 'f', False, 3, ',')]


def offset_texts(full=True):
    out = [('', None)]
    for o in OFFSETS[1:]:
        for f in OFF_FORMS:
            if not full and f not in ('Z', 'hh:mm'):
                continue
            tx = iso_ref.render_offset(o, f)
            if tx is not None:
                out.append((tx, o))
    return out


def check_dt(got, exp_naive, off):
    from dateutil import tz
    if not isinstance(got, D.datetime):
        return 'not-a-datetime'
    if got.replace(tzinfo=None) != exp_naive:
        return 'wrong-datetime'
    if off is None:
        return None if got.tzinfo is None else 'aware-but-no-offset-rendered'
    if got.tzinfo is None:
        return 'naive-but-offset-rendered'
    if got.utcoffset().total_seconds() != off:
        return 'wrong-offset'
    if off == 0 and got.tzinfo is not tz.UTC:
        return 'zero-offset-not-UTC'
    return None


def eval_date(case):
    prelude()
    from dateutil.parser import isoparser, isoparse
    from dateutil import tz
    warnings.simplefilter('ignore')
    y, (mo, da), style = case
    try:
        d = D.date(y, mo, da)
    except ValueError:
        return Res(outcome='no-such-date', nontrivial=False, trans=0)
    r = iso_ref.render_date(d, style)
    if r is None:
        return Res(outcome='style-cannot-express', nontrivial=False, trans=0)
    dtext, dval = r
    viols = []
    kinds = set()
    n = 0
    pT = isoparser(sep='T')
    pS = isoparser(sep=' ')
    p0 = isoparser()

    def fail(kind, text, **info):
        if kind not in kinds and len(viols) < 5:
            kinds.add(kind)
            info.update(kind=kind, text=text)
            viols.append(info)

    def run(parse, text, exp_naive, off, tag):
        nonlocal n
        n += 1
        try:
            got = parse(text)
        except Exception as e:
            fail('valid-rendering-rejected', text, error=repr(e)[:100], where=tag, expected=exp_naive)
            return
        why = check_dt(got, exp_naive, off)
        if why:
            fail(why, text, got=got, expected=exp_naive, offset=off, where=tag)
    # date only
    run(isoparse, dtext, D.datetime(dval.year, dval.month, dval.day), None, 'date-only')
    n += 1
    try:
        g = p0.parse_isodate(dtext)
        if g != dval or type(g) is not D.date:
            fail('parse_isodate-wrong', dtext, got=g, expected=dval)
    except Exception as e:
        fail('valid-rendering-rejected', dtext, error=repr(e)[:100], where='parse_isodate')
    if style not in iso_ref.COMPLETE:
        return Res(trans=n, viols=viols)
    offs_full = offset_texts(True)
    offs_red = offset_texts(False)
    for t in TIMES:
        base = D.datetime.combine(dval, D.time(0))
        # A: every time form x every offset, 'T', str
        for ttext, tval in time_forms(t):
            exp = D.datetime.combine(dval, tval)
            for otext, off in offs_full:
                run(isoparse, dtext + 'T' + ttext + otext, exp, off, 'A')
        red = reduced_time_forms(t)
        # B: separators
        for ttext, tval in red:
            exp = D.datetime.combine(dval, tval)
            for otext, off in offs_red:
                for sep in (' ', 'x', '_'):
                    run(p0.isoparse, dtext + sep + ttext + otext, exp, off, 'B-default-sep-%r' % sep)
                run(pT.isoparse, dtext + 'T' + ttext + otext, exp, off, 'B-configured-T')
                run(pS.isoparse, dtext + ' ' + ttext + otext, exp, off, 'B-configured-space')
                # C: input types
                s = dtext + 'T' + ttext + otext
                run(isoparse, s.encode('ascii'), exp, off, 'C-bytes')
                run(lambda x: isoparse(io.StringIO(x)), s, exp, off, 'C-stream')
    # 24:00 is midnight of the following day
    if d < D.date(9999, 12, 31):
        nxt = D.datetime.combine(dval, D.time(0)) + D.timedelta(days=1)
        for ttext in ('24', '24:00', '2400', '24:00:00', '240000', '24:00:00.0', '24:00:00,000000', '240000.000'):
            for otext, off in offs_red:
                run(isoparse, dtext + 'T' + ttext + otext, nxt, off, '24:00')
    return Res(trans=n, viols=viols,
               sample={'date': d, 'style': style, 'text': dtext, 'strings_parsed': n} if y == 2004 and (mo, da) == (12, 29) else None)


def eval_time_entry(t):
    """time-only and offset-only entry points"""
    prelude()
    from dateutil.parser import isoparser
    from dateutil import tz
    warnings.simplefilter('ignore')
    p = isoparser()
    viols = []
    n = 0
    for ttext, tval in time_forms(t):
        for otext, off in offset_texts(True):
            for conv in (str, lambda s: s.encode('ascii')):
                n += 1
                text = ttext + otext
                try:
                    g = p.parse_isotime(conv(text))
                except Exception as e:
                    viols.append({'kind': 'valid-rendering-rejected', 'text': text, 'where': 'parse_isotime', 'error': repr(e)[:100]})
                    continue
                ok = isinstance(g, D.time) and g.replace(tzinfo=None) == tval
                if off is None:
                    ok = ok and g.tzinfo is None
                else:
                    ok = ok and g.tzinfo is not None and g.utcoffset().total_seconds() == off and (off != 0 or g.tzinfo is tz.UTC)
                if not ok:
                    viols.append({'kind': 'parse_isotime-wrong', 'text': text, 'got': g, 'expected': tval, 'offset': off})
    for ttext in ('24', '24:00', '2400', '24:00:00', '240000', '24:00:00.000'):
        n += 1
        try:
            g = p.parse_isotime(ttext)
            if g != D.time(0):
                viols.append({'kind': 'parse_isotime-wrong', 'text': ttext, 'got': g, 'expected': D.time(0)})
        except Exception as e:
            viols.append({'kind': 'valid-rendering-rejected', 'text': ttext, 'where': 'parse_isotime', 'error': repr(e)[:100]})
    return Res(trans=n, viols=viols[:5])


def eval_tz_entry(off):
    prelude()
    from dateutil.parser import isoparser
    from dateutil import tz
    p = isoparser()
    viols = []
    n = 0
    for f in OFF_FORMS:
        text = iso_ref.render_offset(off, f)
        if text is None:
            continue
        for zero_as_utc in (True, False):
            for conv in (str, lambda s: s.encode('ascii')):
                n += 1
                try:
                    g = p.parse_tzstr(conv(text), zero_as_utc=zero_as_utc)
                except Exception as e:
                    viols.append({'kind': 'valid-rendering-rejected', 'text': text, 'where': 'parse_tzstr', 'error': repr(e)[:100]})
                    continue
                o = g.utcoffset(None)
                if o is None or o.total_seconds() != off:
                    viols.append({'kind': 'parse_tzstr-wrong', 'text': text, 'got': repr(g), 'expected': off})
                elif off == 0 and (zero_as_utc or f in ('Z', 'z')) and g is not tz.UTC:
                    viols.append({'kind': 'zero-offset-not-UTC', 'text': text, 'got': repr(g), 'zero_as_utc': zero_as_utc})
    return Res(trans=n, viols=viols[:5])


def signature(case, detail):
    return {'kind': detail.get('kind'), 'where': detail.get('where')}


def replay(part, case):
    if part == 'dates':
        return eval_date((case[0], tuple(case[1]), case[2])).viols
    if part == 'time-entry':
        return eval_time_entry(case).viols
    return eval_tz_entry(case).viols


def run(ctx):
    iso_ref.selftest()
    cs = [(y, md, st) for y in YEARS for md in DAYS for st in iso_ref.DATE_ONLY_STYLES]
    ctx.explore('dates', cs, 'eval_date', chunk=4)
    times = TIMES + [D.time(23, 59, 59, 999999), D.time(9, 9, 9, 90909)]
    ctx.explore('time-entry', times, 'eval_time_entry', chunk=1)
    offs = [0, 3600, -3600, -12600, 19800, 86340, -86340, 60, -60, 43200]
    ctx.explore('tz-entry', offs, 'eval_tz_entry', serial=True)
    ctx.coverage_extra.update({
        'bounds': {'years': YEARS, 'days': DAYS, 'times': [str(t) for t in TIMES], 'date_styles': iso_ref.DATE_ONLY_STYLES,
                   'offsets': OFFSETS, 'fraction_digits': [1, 2, 3, 6, 7, 9, 10, 15]},
        'rule': 'one case per (date, date style); each parses every time form x offset form (A), separators (B), input types (C), '
                '24:00 forms; transitions = strings parsed',
    })
    ctx.assumptions += ['refs/iso_ref.py renderer is the inverse being tested against; date.isocalendar for week dates']
