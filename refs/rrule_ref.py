"""Reference model of RFC 5545 recurrence sets as *filter semantics* (C01, C10, C12, C13).

An instant t (whole seconds, the start's tzinfo) belongs to the set iff
  (1) its period index relative to the period containing the start is >= 0 and a
      multiple of INTERVAL,
  (2) its date passes every supplied (or start-derived default) day predicate,
  (3) its time passes BYHOUR/BYMINUTE/BYSECOND (or the start-derived defaults),
  (4) it survives BYSETPOS applied to the sorted candidate list of its whole period,
  (5) it is not earlier than the start,
  (6) COUNT / UNTIL truncate the sequence.
Generation is brute force over real calendar days (so impossible dates never
arise) -- no masks, no carries, nothing shared with dateutil.rrule.

`quirks` lets a caller ask for the sequence a *documented deviation* of the
implementation would produce (used only to classify known findings narrowly).
"""
import calendar
import datetime as D
import functools

from refs import easter_ref

YEARLY, MONTHLY, WEEKLY, DAILY, HOURLY, MINUTELY, SECONDLY = range(7)
MAXORD = D.date.max.toordinal()


@functools.lru_cache(maxsize=None)
def easter_ordinal(y):
    return D.date(*easter_ref.western(y)).toordinal()


def _jan1_ordinal(y):
    """proleptic Gregorian ordinal of 1 January of year y (also valid for y < 1 and y > 9999,
    which are needed to number the weeks at both ends of the datetime range)"""
    p = y - 1
    return 365 * p + p // 4 - p // 100 + p // 400 + 1


@functools.lru_cache(maxsize=None)
def week1_start(y, wkst):
    """ordinal of the first day of week 1 of week-year y (first week with >= 4 days in y)."""
    jan4 = _jan1_ordinal(y) + 3
    return jan4 - ((jan4 + 6) % 7 - wkst) % 7


@functools.lru_cache(maxsize=200000)
def weekinfo(o, wkst):
    """(weekno, number of weeks of that week-year) for the date with ordinal o."""
    y = D.date.fromordinal(o).year
    if o >= week1_start(y + 1, wkst):
        wy = y + 1
    elif o >= week1_start(y, wkst):
        wy = y
    else:
        wy = y - 1
    s = week1_start(wy, wkst)
    return (o - s) // 7 + 1, (week1_start(wy + 1, wkst) - s) // 7


def _tup(x):
    if x is None:
        return None
    if isinstance(x, int):
        return (x,)
    return tuple(x)


class Spec(object):
    """Normalised view of the keyword arguments (the *statement's* defaults, not the code's)."""

    def __init__(self, freq, dtstart, interval=1, wkst=0, count=None, until=None,
                 bysetpos=None, bymonth=None, bymonthday=None, byyearday=None,
                 byeaster=None, byweekno=None, byweekday=None, byhour=None,
                 byminute=None, bysecond=None, quirks=()):
        self.quirks = frozenset(quirks)
        if not isinstance(dtstart, D.datetime):
            dtstart = D.datetime(dtstart.year, dtstart.month, dtstart.day)
        dtstart = dtstart.replace(microsecond=0)
        self.freq, self.dtstart, self.interval = freq, dtstart, interval
        self.wkst = wkst if isinstance(wkst, int) else wkst.weekday
        self.count = count
        if until is not None and not isinstance(until, D.datetime):
            until = D.datetime(until.year, until.month, until.day)
        self.until = until
        self.bysetpos = _tup(bysetpos)
        bymonth, bymonthday, byyearday = _tup(bymonth), _tup(bymonthday), _tup(byyearday)
        byeaster, byweekno = _tup(byeaster), _tup(byweekno)
        wds = None
        if byweekday is not None:
            if isinstance(byweekday, int) or hasattr(byweekday, 'n'):
                byweekday = (byweekday,)
            wds = []
            for w in byweekday:
                if isinstance(w, int):
                    wds.append((w, None))
                elif isinstance(w, tuple):
                    wds.append((w[0], w[1] or None))
                else:
                    wds.append((w.weekday, w.n or None))
        if (byweekno is None and byyearday is None and bymonthday is None and
                wds is None and byeaster is None):
            if freq == YEARLY:
                if bymonth is None:
                    bymonth = (dtstart.month,)
                bymonthday = (dtstart.day,)
            elif freq == MONTHLY:
                bymonthday = (dtstart.day,)
            elif freq == WEEKLY:
                wds = [(dtstart.weekday(), None)]
        self.bymonth = set(bymonth) if bymonth is not None else None
        self.bymonthday = set(bymonthday) if bymonthday is not None else None
        self.byyearday = set(byyearday) if byyearday is not None else None
        self.byeaster = set(byeaster) if byeaster is not None else None
        self.byweekno = set(byweekno) if byweekno is not None else None
        if wds is not None:
            if freq > MONTHLY:
                # RFC 5545 leaves a numeric BYDAY undefined here; the documented behaviour
                # (tests/test_rrule.py::testWeeklyByNWeekDay) ignores the ordinal
                wds = [(w, None) for w, n in wds]
            self.plainwd = set(w for w, n in wds if n is None)
            self.nthwd = set((w, n) for w, n in wds if n is not None)
        else:
            self.plainwd = self.nthwd = None
        self.byhour = set(_tup(byhour)) if byhour is not None else (
            {dtstart.hour} if freq < HOURLY else None)
        self.byminute = set(_tup(byminute)) if byminute is not None else (
            {dtstart.minute} if freq < MINUTELY else None)
        self.bysecond = set(_tup(bysecond)) if bysecond is not None else (
            {dtstart.second} if freq < SECONDLY else None)
        self._dayok = {}

    # ---- (2) day predicates -------------------------------------------------
    def day_ok(self, o):
        r = self._dayok.get(o)
        if r is None:
            r = self._dayok[o] = self._day_ok(D.date.fromordinal(o))
        return r

    def _day_ok(self, d):
        y, m, dd = d.year, d.month, d.day
        o = d.toordinal()
        if self.bymonth is not None and m not in self.bymonth:
            return False
        if self.bymonthday is not None:
            dim = calendar.monthrange(y, m)[1]
            if dd not in self.bymonthday and dd - dim - 1 not in self.bymonthday:
                return False
        if self.byyearday is not None:
            yd = o - D.date(y, 1, 1).toordinal() + 1
            yl = 366 if calendar.isleap(y) else 365
            if yd not in self.byyearday and yd - yl - 1 not in self.byyearday:
                return False
        if self.byweekno is not None:
            wn, nw = weekinfo(o, self.wkst)
            if wn not in self.byweekno and wn - nw - 1 not in self.byweekno:
                return False
        if self.plainwd is not None:
            wd = d.weekday()
            plain_ok = wd in self.plainwd
            nth_ok = False
            for (w, n) in self.nthwd:
                if wd != w:
                    continue
                if self.freq == MONTHLY or (self.freq == YEARLY and self.bymonth):
                    first = D.date(y, m, 1).toordinal()
                    last = D.date(y, m, calendar.monthrange(y, m)[1]).toordinal()
                else:
                    first = D.date(y, 1, 1).toordinal()
                    last = D.date(y, 12, 31).toordinal()
                k = (o - first) // 7 + 1 if n > 0 else -((last - o) // 7 + 1)
                if k == n:
                    nth_ok = True
                    break
            if 'byday-plain-and-nth-intersected' in self.quirks and self.plainwd and self.nthwd:
                ok = plain_ok and nth_ok
            else:
                ok = plain_ok or nth_ok
            if not ok:
                return False
        if self.byeaster is not None:
            years = (y,) if 'byeaster-own-year-only' in self.quirks else (y - 1, y, y + 1)
            for yy in years:
                if 1 <= yy <= 9999 and (o - easter_ordinal(yy)) in self.byeaster:
                    break
            else:
                return False
        return True

    # ---- (1) period index -----------------------------------------------------
    def _weekstart(self, o):
        return o - ((o + 6) % 7 - self.wkst) % 7       # (o+6)%7 == weekday of ordinal o

    def day_period(self, o):
        """period index of the day with ordinal o for FREQ in YEARLY..DAILY."""
        s = self.dtstart
        f = self.freq
        if f == DAILY:
            return o - s.toordinal()
        if f == WEEKLY:
            return (self._weekstart(o) - self._weekstart(s.toordinal())) // 7
        d = D.date.fromordinal(o)
        if f == YEARLY:
            return d.year - s.year
        return (d.year - s.year) * 12 + d.month - s.month

    # ---- generation -----------------------------------------------------------
    def occurrences(self, horizon, maxn):
        """All occurrences whose wall-clock reading is <= horizon (naive), at most maxn."""
        out = []
        s = self.dtstart
        tz = s.tzinfo
        sn = s.replace(tzinfo=None)
        until = self.until
        state = {'n': 0}

        def emit(cands, first_period=False):
            """cands: naive datetimes of one period. returns False when the sequence is over."""
            cands = sorted(set(cands))
            if first_period and 'weekly-first-period-starts-at-dtstart-day' in self.quirks:
                cands = [c for c in cands if c.date() >= sn.date()]
            if self.bysetpos:
                sel = set()
                L = len(cands)
                for p in self.bysetpos:
                    i = p - 1 if p > 0 else L + p
                    if 0 <= i < L:
                        sel.add(cands[i])
                cands = sorted(sel)
            for c in cands:
                if c < sn:
                    continue
                if until is not None:
                    if tz is None:
                        if c > until:
                            return False
                    elif c.replace(tzinfo=tz) > until:
                        return False
                if c > horizon:
                    return False
                if self.count is not None and state['n'] >= self.count:
                    return False
                state['n'] += 1
                out.append(c.replace(tzinfo=tz))
                if len(out) >= maxn:
                    return False
            if self.count is not None and state['n'] >= self.count:
                return False
            return True

        f = self.freq
        iv = self.interval
        if f <= DAILY:
            times = sorted(D.time(h, m, sec) for h in self.byhour for m in self.byminute
                           for sec in self.bysecond)
            so = s.toordinal()
            if f == YEARLY:
                o = D.date(s.year, 1, 1).toordinal()
            elif f == MONTHLY:
                o = D.date(s.year, s.month, 1).toordinal()
            elif f == WEEKLY:
                o = max(1, self._weekstart(so))
            else:
                o = so
            cur = None
            cands = []
            ho = horizon.toordinal()
            while o <= MAXORD:
                pi = self.day_period(o)
                if pi != cur:
                    if cur is not None and cur % iv == 0:
                        if not emit(cands, first_period=(cur == 0)):
                            return out
                    cands = []
                    cur = pi
                    if o > ho:
                        return out
                if pi % iv == 0 and self.day_ok(o):
                    d = D.date.fromordinal(o)
                    for t in times:
                        cands.append(D.datetime.combine(d, t))
                o += 1
            if cur is not None and cur % iv == 0:
                emit(cands, first_period=(cur == 0))
            return out
        # sub-daily: walk the periods start + k*interval directly
        unit = {HOURLY: 3600, MINUTELY: 60, SECONDLY: 1}[f]
        if f == HOURLY:
            p0 = sn.replace(minute=0, second=0)
        elif f == MINUTELY:
            p0 = sn.replace(second=0)
        else:
            p0 = sn
        step = D.timedelta(seconds=unit * iv)
        k = 0
        dmax = D.datetime.max
        while True:
            try:
                p = p0 + k * step
            except OverflowError:
                return out
            if p > horizon:
                return out
            o = p.toordinal()
            if not self.day_ok(o):
                # jump to the first period on a later day
                if o >= MAXORD:
                    return out
                nxt = D.datetime.fromordinal(o + 1)
                secs = int((nxt - p0).total_seconds())
                k = max(k + 1, -(-secs // (unit * iv)))
                continue
            ok = True
            if self.byhour is not None and p.hour not in self.byhour:
                ok = False
            elif f >= MINUTELY and self.byminute is not None and p.minute not in self.byminute:
                ok = False
            elif f == SECONDLY and self.bysecond is not None and p.second not in self.bysecond:
                ok = False
            if ok:
                if f == HOURLY:
                    cands = [p.replace(minute=m, second=sec) for m in self.byminute for sec in self.bysecond]
                elif f == MINUTELY:
                    cands = [p.replace(second=sec) for sec in self.bysecond]
                else:
                    cands = [p]
                if not emit(cands):
                    return out
            k += 1


def selftest():
    # week numbers against date.isocalendar() for wkst=MO over 400 years
    d = D.date(1999, 12, 20)
    while d.year < 2402:
        iso = d.isocalendar()
        wn, nw = weekinfo(d.toordinal(), 0)
        assert wn == iso[1], d
        if d.month == 12 and d.day == 28:
            assert nw == iso[1], d          # Dec 28 is always in the last ISO week
        d += D.timedelta(days=1 if d.month in (12, 1) else 9)
    # nth weekday and negative month days against calendar
    sp = Spec(MONTHLY, D.datetime(1997, 9, 2, 9), byweekday=[(4, 1), (6, -1)])
    got = [x for x in sp.occurrences(D.datetime(1997, 12, 31), 10)]
    assert got[:4] == [D.datetime(1997, 9, 5, 9), D.datetime(1997, 9, 28, 9), D.datetime(1997, 10, 3, 9),
                       D.datetime(1997, 10, 26, 9)], got
    sp = Spec(YEARLY, D.datetime(1997, 9, 2, 9), byeaster=0)
    assert sp.occurrences(D.datetime(2000, 1, 1), 5) == [D.datetime(1998, 4, 12, 9), D.datetime(1999, 4, 4, 9)]
    sp = Spec(DAILY, D.datetime(1997, 9, 2, 9), count=3, interval=2)
    assert sp.occurrences(D.datetime(2000, 1, 1), 50) == [D.datetime(1997, 9, 2, 9), D.datetime(1997, 9, 4, 9),
                                                         D.datetime(1997, 9, 6, 9)]
    sp = Spec(MINUTELY, D.datetime(1997, 9, 2, 9, 0, 30), interval=90, byhour=(9, 12))
    assert sp.occurrences(D.datetime(1997, 9, 4, 0), 3) == [
        D.datetime(1997, 9, 2, 9, 0, 30), D.datetime(1997, 9, 2, 12, 0, 30), D.datetime(1997, 9, 3, 9, 0, 30)]
    return True
