"""Reference Easter computations, independent of dateutil.easter.

western(y)  -- Meeus/Jones/Butcher "anonymous Gregorian algorithm"
julian(y)   -- Meeus' Julian algorithm (date in the Julian calendar)
orthodox(y) -- the Julian date converted to the Gregorian calendar through
               Julian Day Numbers (no century table shared with the library)
"""
import datetime as D


def western(y):
    a = y % 19
    b, c = divmod(y, 100)
    d, e = divmod(b, 4)
    f = (b + 8) // 25
    g = (b - f + 1) // 3
    h = (19 * a + b - d - g + 15) % 30
    i, k = divmod(c, 4)
    l = (32 + 2 * e + 2 * i - h - k) % 7
    m = (a + 11 * h + 22 * l) // 451
    month, day = divmod(h + l - 7 * m + 114, 31)
    return (y, month, day + 1)


def julian(y):
    a = y % 4
    b = y % 7
    c = y % 19
    d = (19 * c + 15) % 30
    e = (2 * a + 4 * b - d + 34) % 7
    month, day = divmod(d + e + 114, 31)
    return (y, month, day + 1)


def jdn_julian(y, m, d):
    a = (14 - m) // 12
    yy = y + 4800 - a
    mm = m + 12 * a - 3
    return d + (153 * mm + 2) // 5 + 365 * yy + yy // 4 - 32083


def jdn_gregorian(y, m, d):
    a = (14 - m) // 12
    yy = y + 4800 - a
    mm = m + 12 * a - 3
    return d + (153 * mm + 2) // 5 + 365 * yy + yy // 4 - yy // 100 + yy // 400 - 32045


_JDN_OF_ORDINAL_1 = jdn_gregorian(1, 1, 1)


def orthodox(y):
    j = jdn_julian(*julian(y))
    dt = D.date.fromordinal(j - _JDN_OF_ORDINAL_1 + 1)
    return (dt.year, dt.month, dt.day)


def julian_weekday_is_sunday(y, m, d):
    # JDN 0 was a Monday; (jdn + 1) % 7 == 0 is Sunday
    return (jdn_julian(y, m, d) + 1) % 7 == 0


def selftest():
    # the reference itself: Sunday-ness and range
    for y in range(1583, 4100):
        w = D.date(*western(y))
        assert w.weekday() == 6 and D.date(y, 3, 22) <= w <= D.date(y, 4, 25), y
        o = D.date(*orthodox(y))
        assert o.weekday() == 6, y
    for y in range(326, 10000):
        assert julian_weekday_is_sunday(*julian(y)), y
    assert western(2024) == (2024, 3, 31) and orthodox(2024) == (2024, 5, 5)
    assert julian(2024) == (2024, 4, 22)
    return True
