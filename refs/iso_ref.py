"""Independent recogniser / evaluator / renderer for the ISO-8601 forms dateutil.parser.isoparser supports (C07, C20).

readings(s, sep, entry) returns the SET of values the supported grammar assigns to the
byte string s (empty set = not an ISO-8601 spelling in any supported form):
  * every numeric field is exactly the required number of ASCII digits,
  * separators are used consistently inside the date and inside the time,
  * fields are within calendar / clock range (week 53 only in 53-week years, ordinal
    day <= 365/366, 24:00 only with zero minutes/seconds/fraction, offset hh <= 23, mm <= 59),
  * with no configured separator ANY single byte may separate date and time (the docstring
    promises "any single character" and tests/property/test_isoparse_prop.py pins that even a
    digit works); with a configured one only that byte.
Values: ('dt', naive datetime, offset seconds | None) / ('date', date) / ('time', time, offset|None)
        / ('tz', offset seconds, zero_is_utc flag irrelevant).
Nothing here imports dateutil.
"""
import calendar
import datetime as D
import re

DIG = b'[0-9]'
_DATE_FORMS = [
    ('Y', re.compile(b'^([0-9]{4})$')),
    ('Y-M', re.compile(b'^([0-9]{4})-([0-9]{2})$')),
    ('Y-M-D', re.compile(b'^([0-9]{4})-([0-9]{2})-([0-9]{2})$')),
    ('YMD', re.compile(b'^([0-9]{4})([0-9]{2})([0-9]{2})$')),
    ('Y-Ww', re.compile(b'^([0-9]{4})-W([0-9]{2})$')),
    ('YWw', re.compile(b'^([0-9]{4})W([0-9]{2})$')),
    ('Y-Ww-D', re.compile(b'^([0-9]{4})-W([0-9]{2})-([0-9])$')),
    ('YWwD', re.compile(b'^([0-9]{4})W([0-9]{2})([0-9])$')),
    ('Y-DDD', re.compile(b'^([0-9]{4})-([0-9]{3})$')),
    ('YDDD', re.compile(b'^([0-9]{4})([0-9]{3})$')),
]
COMPLETE = {'Y-M-D', 'YMD', 'Y-Ww-D', 'YWwD', 'Y-DDD', 'YDDD'}
_TIME = re.compile(b'^([0-9]{2})(?:(:?)([0-9]{2})(?:(:?)([0-9]{2})(?:[.,]([0-9]+))?)?)?$')
_TZ = re.compile(b'^(?:([Zz])|([+-])([0-9]{2})(?:(:?)([0-9]{2}))?)$')


def weeks_in_year(y):
    return D.date(y, 12, 28).isocalendar()[1]


def date_readings(s):
    out = set()
    for name, rx in _DATE_FORMS:
        m = rx.match(s)
        if not m:
            continue
        g = [int(x) for x in m.groups()]
        y = g[0]
        if not 1 <= y <= 9999:
            continue
        try:
            if name == 'Y':
                d = D.date(y, 1, 1)
            elif name == 'Y-M':
                d = D.date(y, g[1], 1)
            elif name in ('Y-M-D', 'YMD'):
                d = D.date(y, g[1], g[2])
            elif name in ('Y-Ww', 'YWw', 'Y-Ww-D', 'YWwD'):
                wk = g[1]
                day = g[2] if len(g) > 2 else 1
                if not (1 <= wk <= weeks_in_year(y)) or not (1 <= day <= 7):
                    continue
                d = D.date.fromisocalendar(y, wk, day)
            else:
                n = g[1]
                if not (1 <= n <= 365 + calendar.isleap(y)):
                    continue
                d = D.date(y, 1, 1) + D.timedelta(days=n - 1)
        except (ValueError, OverflowError):
            continue
        out.add((name, d))
    return out


def tz_readings(s):
    m = _TZ.match(s)
    if not m:
        return set()
    if m.group(1):
        return {0}
    sign = -1 if m.group(2) == b'-' else 1
    hh = int(m.group(3))
    mm = int(m.group(5)) if m.group(5) is not None else 0
    if hh > 23 or mm > 59:
        return set()
    return {sign * (hh * 3600 + mm * 60)}


def time_readings(s):
    """-> set of (hour, minute, second, microsecond, offset|None, is24)"""
    out = set()
    # split off a zone designator at the first of - + Z z
    cut = None
    for i, c in enumerate(s):
        if c in b'-+Zz':
            cut = i
            break
    body, tzs = (s, None) if cut is None else (s[:cut], s[cut:])
    offs = [None]
    if tzs is not None:
        offs = list(tz_readings(tzs))
        if not offs:
            return out
    m = _TIME.match(body)
    if not m:
        return out
    hh, c1, mm, c2, ss, frac = m.groups()
    if ss is not None and (c1 == b':') != (c2 == b':'):
        return out                       # inconsistent colon use
    h = int(hh)
    mi = int(mm) if mm is not None else 0
    se = int(ss) if ss is not None else 0
    us = int((frac[:6] + b'000000')[:6]) if frac is not None else 0
    is24 = False
    if h == 24:
        if mi or se or (frac is not None and int(frac) != 0):
            return out
        h = 0
        is24 = True
    if h > 23 or mi > 59 or se > 59:
        return out
    for o in offs:
        out.add((h, mi, se, us, o, is24))
    return out


def readings(s, sep=None, entry='datetime'):
    if isinstance(s, str):
        try:
            s = s.encode('ascii')
        except UnicodeEncodeError:
            return set()
    if entry == 'date':
        return set(('date', d) for n, d in date_readings(s))
    if entry == 'time':
        return set(('time', D.time(h, mi, se, us), o) for h, mi, se, us, o, is24 in time_readings(s))
    if entry == 'tz':
        return set(('tz', o) for o in tz_readings(s))
    out = set()
    for n, d in date_readings(s):
        out.add(('dt', D.datetime(d.year, d.month, d.day), None))
    for i in range(4, len(s)):
        c = s[i:i + 1]
        if sep is not None and c != sep:
            continue
        for n, d in date_readings(s[:i]):
            if n not in COMPLETE:
                continue
            for h, mi, se, us, o, is24 in time_readings(s[i + 1:]):
                try:
                    dt = D.datetime(d.year, d.month, d.day, h, mi, se, us)
                    if is24:
                        dt = dt + D.timedelta(days=1)
                except (ValueError, OverflowError):
                    continue
                out.add(('dt', dt, o))
    return out


# ---------------------------------------------------------------- renderer
DATE_STYLES = ['Y-M-D', 'YMD', 'Y-Ww-D', 'YWwD', 'Y-DDD', 'YDDD']
DATE_ONLY_STYLES = DATE_STYLES + ['Y', 'Y-M', 'Y-Ww', 'YWw']


def render_date(d, style):
    """-> (text, date the text denotes) or None when the style cannot express d's year"""
    if style in ('Y-M-D', 'YMD'):
        f = '%04d-%02d-%02d' if style == 'Y-M-D' else '%04d%02d%02d'
        return f % (d.year, d.month, d.day), d
    if style in ('Y-DDD', 'YDDD'):
        n = d.timetuple().tm_yday
        return ('%04d-%03d' if style == 'Y-DDD' else '%04d%03d') % (d.year, n), d
    iy, iw, iwd = d.isocalendar()
    if not 1 <= iy <= 9999:
        return None
    if style == 'Y-Ww-D':
        return '%04d-W%02d-%d' % (iy, iw, iwd), d
    if style == 'YWwD':
        return '%04dW%02d%d' % (iy, iw, iwd), d
    if style in ('Y-Ww', 'YWw'):
        mon = d - D.timedelta(days=iwd - 1)
        if mon.year < 1:
            return None
        return ('%04d-W%02d' if style == 'Y-Ww' else '%04dW%02d') % (iy, iw), mon
    if style == 'Y':
        return '%04d' % d.year, D.date(d.year, 1, 1)
    if style == 'Y-M':
        return '%04d-%02d' % (d.year, d.month), D.date(d.year, d.month, 1)
    raise ValueError(style)


def render_time(t, prec, ext, ndig=6, mark='.'):
    """prec in h, m, s, f -> (text, time truncated to that precision)"""
    c = ':' if ext else ''
    if prec == 'h':
        return '%02d' % t.hour, D.time(t.hour)
    if prec == 'm':
        return '%02d%s%02d' % (t.hour, c, t.minute), D.time(t.hour, t.minute)
    base = '%02d%s%02d%s%02d' % (t.hour, c, t.minute, c, t.second)
    if prec == 's':
        return base, D.time(t.hour, t.minute, t.second)
    digits = ('%06d' % t.microsecond + '739' + '5081' * 4)[:ndig]   # digits beyond microseconds are non-zero noise (any number of them)
    us = int((digits[:6] + '000000')[:6])
    return base + mark + digits, D.time(t.hour, t.minute, t.second, us)


def render_offset(sec, form):
    """form: Z, z, hh, hhmm, hh:mm -> text or None when the form cannot express sec"""
    if form in ('Z', 'z'):
        return form if sec == 0 else None
    sign = '-' if sec < 0 else '+'
    a = abs(sec)
    hh, mm = a // 3600, a % 3600 // 60
    if form == 'hh':
        return None if mm else '%s%02d' % (sign, hh)
    if form == 'hhmm':
        return '%s%02d%02d' % (sign, hh, mm)
    if form == 'hh:mm':
        return '%s%02d:%02d' % (sign, hh, mm)
    if form == '-00:00':
        return '-00:00' if sec == 0 else None
    raise ValueError(form)


def selftest():
    assert readings(b'2014-W01-1') == {('dt', D.datetime(2013, 12, 30), None)}
    assert readings(b'2014-W53-1') == set() and readings(b'2015-W53-1') != set()
    assert readings(b'2014-02-30') == set() and readings(b'2_14') == set() and readings(b'+204-034') == set()
    assert readings(b'2014-01-02T24:00') == {('dt', D.datetime(2014, 1, 3), None)}
    assert readings(b'2014-01-02T10:30:15,123456789+05:30') == {('dt', D.datetime(2014, 1, 2, 10, 30, 15, 123456), 19800)}
    assert readings(b'2014-01-02x10', sep=b'T') == set() and readings(b'2014-01-02x10') != set()
    assert readings(b'20140102T1030') and readings(b'2014010211030') == {('dt', D.datetime(2014, 1, 2, 10, 30), None)}
    assert readings(b'2014-01T10') == set() and readings(b'2014001 10')
    assert readings(b'10:3015', entry='time') == set() and readings(b'+01-00', entry='tz') == set()
    assert readings(b'+01000', entry='tz') == set() and readings(b'-00:00', entry='tz') == {('tz', 0)}
    for y in range(1990, 2030):
        assert weeks_in_year(y) in (52, 53)
    return True
