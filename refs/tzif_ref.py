"""Independent TZif (version-1 data block) decoder, timeline and writer (C04, C05, C06).

Nothing here imports dateutil.  A decoded zone is
    times : sorted list of transition instants (seconds since 1970-01-01 UTC)
    idx   : type index in force from times[i] on
    types : list of (utoff seconds, isdst, abbreviation)
The timeline assigns to every instant u the type  types[idx[k-1]]  with
k = bisect_right(times, u), and the *first standard type* (first type with
isdst == 0, else type 0) before the first transition -- the convention the
property states.
"""
import bisect
import datetime as D
import os
import struct

EPOCH = D.datetime(1970, 1, 1)
ZONEINFO = '/usr/share/zoneinfo'


def decode(data):
    if data[:4] != b'TZif':
        raise ValueError("not a TZif stream")
    isutcnt, isstdcnt, leapcnt, timecnt, typecnt, charcnt = struct.unpack('>6l', data[20:44])
    p = 44
    times = list(struct.unpack('>%dl' % timecnt, data[p:p + 4 * timecnt]))
    p += 4 * timecnt
    idx = list(struct.unpack('>%dB' % timecnt, data[p:p + timecnt]))
    p += timecnt
    raw = []
    for i in range(typecnt):
        off, isdst, ab = struct.unpack('>lbB', data[p:p + 6])
        p += 6
        raw.append((off, isdst, ab))
    chars = data[p:p + charcnt]

    def abbr(i):
        return chars[i:chars.index(b'\0', i)].decode('ascii')
    types = [(o, int(d), abbr(a)) for o, d, a in raw]
    return Zone(times, idx, types)


def encode(times, idx, types, isstd=None, isut=None, leap=()):
    """TZif v1 writer for synthetic shapes (isstd / isut indicator arrays optional)."""
    abbrs = b''
    pos = {}
    for o, d, a in types:
        if a not in pos:
            pos[a] = len(abbrs)
            abbrs += a.encode('ascii') + b'\0'
    isstd = list(isstd or [])
    isut = list(isut or [])
    out = b'TZif' + b'\0' * 16 + struct.pack('>6l', len(isut), len(isstd), len(leap), len(times), len(types), len(abbrs))
    out += struct.pack('>%dl' % len(times), *times) + struct.pack('>%dB' % len(idx), *idx)
    for o, d, a in types:
        out += struct.pack('>lbB', o, d, pos[a])
    out += abbrs
    for t, n in leap:
        out += struct.pack('>ll', t, n)
    out += struct.pack('>%db' % len(isstd), *isstd) + struct.pack('>%db' % len(isut), *isut)
    return out


class Zone(object):
    def __init__(self, times, idx, types):
        self.times, self.idx, self.types = times, idx, types
        self.before = next((t for t in types if not t[1]), types[0])
        # offs[k] = type in interval k; interval 0 is (-inf, times[0])
        self.seq = [self.before] + [types[i] for i in idx]

    def at(self, u):
        """(utoff, isdst, abbr) in force at UTC second u"""
        return self.seq[bisect.bisect_right(self.times, u)]

    def interval(self, u):
        return bisect.bisect_right(self.times, u)

    def preimages(self, w, lo=None, hi=None):
        """sorted UTC seconds u with u + utoff(u) == w, restricted to lo <= u < hi if given"""
        res = []
        for o in set(t[0] for t in self.seq):
            u = w - o
            if self.at(u)[0] == o:
                if (lo is None or u >= lo) and (hi is None or u < hi):
                    res.append(u)
        return sorted(res)


def utc_dt(u):
    return EPOCH + D.timedelta(seconds=u)


_CORPUS = None
_BY_CONTENT = None


def _scan(root):
    by = {}
    for dp, dn, fn in os.walk(root):
        dn.sort()
        if '/posix' in dp or '/right' in dp:
            continue
        for f in sorted(fn):
            p = os.path.join(dp, f)
            try:
                with open(p, 'rb') as fh:
                    data = fh.read()
            except (IOError, OSError):
                continue
            if data[:4] != b'TZif':
                continue
            by.setdefault(data, []).append(os.path.relpath(p, root))
    for names in by.values():
        names.sort(key=lambda n: ('/' not in n, n))
    return by


def corpus(root=ZONEINFO):
    """every distinct TZif file of the installed database: list of (name, path), de-duplicated by content"""
    global _CORPUS, _BY_CONTENT
    if _CORPUS is None:
        _BY_CONTENT = _scan(root)
        _CORPUS = sorted((names[0], os.path.join(root, names[0])) for names in _BY_CONTENT.values())
    return _CORPUS


def links(root=ZONEINFO):
    """alias name -> canonical name for files with identical content (the database's link entries)"""
    corpus(root)
    out = {}
    for names in _BY_CONTENT.values():
        for n in names[1:]:
            out[n] = names[0]
    return out


def crosscheck_zoneinfo(name, zone, probes):
    """second opinion: CPython's zoneinfo on the same instants (inside the v1 range). -> mismatch count"""
    try:
        import zoneinfo
        z = zoneinfo.ZoneInfo(name)
    except Exception:
        return 0
    bad = 0
    utc = D.timezone.utc
    for u in probes:
        if not zone.times or not (zone.times[0] <= u < zone.times[-1]):
            continue
        loc = utc_dt(u).replace(tzinfo=utc).astimezone(z)
        o, d, a = zone.at(u)
        if loc.utcoffset().total_seconds() != o or loc.tzname() != a:
            bad += 1
    return bad


H = 3600
T0 = 86400 * 365 * 10
DAYS = 86400


def synthetic_shapes():
    """name -> (times, idx, types): transition shapes absent from (or rare in) real data"""
    return {
        'none': ([], [], [(H, 0, 'STD')]),
        'one-type-dst-only': ([], [], [(2 * H, 1, 'DST')]),
        'abbr-only': ([T0, T0 + 200 * DAYS, T0 + 300 * DAYS], [1, 0, 1], [(H, 0, 'AAA'), (H, 0, 'BBB')]),
        'normal': ([T0, T0 + 200 * DAYS, T0 + 365 * DAYS, T0 + 565 * DAYS], [1, 0, 1, 0], [(H, 0, 'STD'), (2 * H, 1, 'DST')]),
        'negdst': ([T0, T0 + 200 * DAYS, T0 + 365 * DAYS, T0 + 565 * DAYS], [1, 0, 1, 0], [(H, 0, 'IST'), (0, 1, 'GMT')]),
        'dst-dst': ([T0, T0 + 100 * DAYS, T0 + 200 * DAYS, T0 + 300 * DAYS], [1, 2, 1, 0],
                    [(0, 0, 'GMT'), (H, 1, 'BST'), (2 * H, 1, 'BDST')]),
        'first-into-dst': ([T0, T0 + 100 * DAYS, T0 + 200 * DAYS], [1, 0, 1], [(0, 0, 'STD'), (H, 1, 'DST')]),
        'first-fold': ([T0, T0 + 100 * DAYS, T0 + 200 * DAYS], [1, 2, 1], [(H + 1234, 0, 'LMT'), (0, 0, 'STD'), (H, 1, 'DST')]),
        'first-gap': ([T0, T0 + 100 * DAYS, T0 + 200 * DAYS], [1, 2, 1], [(-1234, 0, 'LMT'), (0, 0, 'STD'), (H, 1, 'DST')]),
        'base-change-with-dst': ([T0, T0 + 100 * DAYS, T0 + 200 * DAYS, T0 + 300 * DAYS], [1, 2, 3, 2],
                                 [(0, 0, 'A'), (H, 1, 'AD'), (2 * H, 0, 'B'), (3 * H, 1, 'BD')]),
        'base-change-into-dst': ([T0, T0 + 100 * DAYS, T0 + 200 * DAYS], [1, 2, 1],
                                 [(0, 0, 'A'), (3 * H, 1, 'BD'), (2 * H, 0, 'B')]),
        'all-dst': ([T0, T0 + 100 * DAYS, T0 + 200 * DAYS], [1, 0, 1], [(H, 1, 'D1'), (2 * H, 1, 'D2')]),
        'half-hour': ([T0, T0 + 100 * DAYS, T0 + 200 * DAYS], [1, 0, 1], [(19800, 0, 'IST'), (21600 + 1800, 1, 'IDT')]),
        'sub-minute': ([T0, T0 + 100 * DAYS, T0 + 200 * DAYS], [1, 2, 1], [(-17762, 0, 'LMT'), (-18000, 0, 'EST'), (-14400, 1, 'EDT')]),
        'big-jump': ([T0, T0 + 100 * DAYS, T0 + 200 * DAYS], [1, 0, 1], [(-11 * H, 0, 'W'), (13 * H, 0, 'E')]),
        # the type table lists a daylight type first: "the first standard type" is then not "the first type"
        'dst-type-first': ([T0, T0 + 100 * DAYS, T0 + 200 * DAYS, T0 + 300 * DAYS], [0, 1, 0, 1], [(2 * H, 1, 'DST'), (H, 0, 'STD')]),
        'dst-type-first-into-std': ([T0, T0 + 100 * DAYS, T0 + 200 * DAYS], [1, 0, 1], [(2 * H, 1, 'DST'), (H, 0, 'STD')]),
        'dst-type-first-three': ([T0, T0 + 100 * DAYS, T0 + 200 * DAYS], [2, 0, 1], [(2 * H, 1, 'DST'), (H, 0, 'STD'), (0, 0, 'OLD')]),
        # more than 128 local time types (an index above 127 must not be read as a signed byte)
        'many-types': ([T0 + i * 30 * DAYS for i in range(200)], [(i * 7) % 200 for i in range(200)],
                       [(H + 60 * i, i % 2, 'T%02d' % (i % 20)) for i in range(200)]),
        'close': ([T0, T0 + 1800, T0 + 100 * DAYS, T0 + 200 * DAYS], [1, 0, 1, 0], [(0, 0, 'STD'), (H, 1, 'DST')]),
    }


def selftest():
    data = encode([T0, T0 + DAYS], [1, 0], [(H, 0, 'STD'), (2 * H, 1, 'DST')])
    z = decode(data)
    assert z.times == [T0, T0 + DAYS] and z.types[1] == (2 * H, 1, 'DST')
    assert z.at(T0 - 1) == (H, 0, 'STD') and z.at(T0) == (2 * H, 1, 'DST') and z.at(T0 + DAYS) == (H, 0, 'STD')
    assert z.preimages(T0 + H + 1800) == [] and len(z.preimages(T0 + DAYS + H + 1800)) == 2
    return True
