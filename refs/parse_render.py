"""Renderings of a datetime in every textual format the generic parser supports without ambiguity (C02, C15).

Each template: name -> (render(dt) -> text, precision, parse flags).  The renderer is the
inverse the parser is tested against; nothing here imports dateutil.
"""
import collections
import datetime as D

MON = ['Jan', 'Feb', 'Mar', 'Apr', 'May', 'Jun', 'Jul', 'Aug', 'Sep', 'Oct', 'Nov', 'Dec']
MONF = ['January', 'February', 'March', 'April', 'May', 'June', 'July', 'August', 'September', 'October', 'November',
        'December']
WD = ['Mon', 'Tue', 'Wed', 'Thu', 'Fri', 'Sat', 'Sun']
WDF = ['Monday', 'Tuesday', 'Wednesday', 'Thursday', 'Friday', 'Saturday', 'Sunday']


def h12(h):
    return (h % 12) or 12


def ap(h):
    return 'AM' if h < 12 else 'PM'


T = collections.OrderedDict()


def add(name, f, prec, **kw):
    T[name] = (f, prec, kw)


Y4 = '%04d'
add('iso_T_us', lambda d: '%04d-%02d-%02dT%02d:%02d:%02d.%06d' % (d.year, d.month, d.day, d.hour, d.minute, d.second, d.microsecond), 'us')
add('iso_sp_us', lambda d: '%04d-%02d-%02d %02d:%02d:%02d.%06d' % (d.year, d.month, d.day, d.hour, d.minute, d.second, d.microsecond), 'us')
add('iso_T_ms_comma', lambda d: '%04d-%02d-%02dT%02d:%02d:%02d,%03d' % (d.year, d.month, d.day, d.hour, d.minute, d.second, d.microsecond // 1000), 'ms')
add('iso_T_s', lambda d: '%04d-%02d-%02dT%02d:%02d:%02d' % (d.year, d.month, d.day, d.hour, d.minute, d.second), 's')
add('iso_sp_s', lambda d: '%04d-%02d-%02d %02d:%02d:%02d' % (d.year, d.month, d.day, d.hour, d.minute, d.second), 's')
add('iso_sp_m', lambda d: '%04d-%02d-%02d %02d:%02d' % (d.year, d.month, d.day, d.hour, d.minute), 'm')
add('iso_T_m', lambda d: '%04d-%02d-%02dT%02d:%02d' % (d.year, d.month, d.day, d.hour, d.minute), 'm')
add('iso_date', lambda d: '%04d-%02d-%02d' % (d.year, d.month, d.day), 'd')
add('compact14', lambda d: '%04d%02d%02d%02d%02d%02d' % (d.year, d.month, d.day, d.hour, d.minute, d.second), 's')
add('compact12', lambda d: '%04d%02d%02d%02d%02d' % (d.year, d.month, d.day, d.hour, d.minute), 'm')
add('compact8', lambda d: '%04d%02d%02d' % (d.year, d.month, d.day), 'd')
add('compactT6', lambda d: '%04d%02d%02dT%02d%02d%02d' % (d.year, d.month, d.day, d.hour, d.minute, d.second), 's')
add('compactT6f', lambda d: '%04d%02d%02dT%02d%02d%02d.%06d' % (d.year, d.month, d.day, d.hour, d.minute, d.second, d.microsecond), 'us')
add('compactT4', lambda d: '%04d%02d%02dT%02d%02d' % (d.year, d.month, d.day, d.hour, d.minute), 'm')
add('compactT2', lambda d: '%04d%02d%02dT%02d' % (d.year, d.month, d.day, d.hour), 'h')
add('compact_sp6', lambda d: '%04d%02d%02d %02d%02d%02d' % (d.year, d.month, d.day, d.hour, d.minute, d.second), 's')
add('ctime', lambda d: '%s %s %2d %02d:%02d:%02d %04d' % (WD[d.weekday()], MON[d.month - 1], d.day, d.hour, d.minute, d.second, d.year), 's')
add('rfc2822', lambda d: '%s, %02d %s %04d %02d:%02d:%02d' % (WD[d.weekday()], d.day, MON[d.month - 1], d.year, d.hour, d.minute, d.second), 's')
add('rfc2822_noday', lambda d: '%02d %s %04d %02d:%02d' % (d.day, MON[d.month - 1], d.year, d.hour, d.minute), 'm')
add('mon_d_y', lambda d: '%s %d %04d' % (MON[d.month - 1], d.day, d.year), 'd')
add('month_d_comma_y', lambda d: '%s %d, %04d' % (MONF[d.month - 1], d.day, d.year), 'd')
add('month_d_comma_y_time', lambda d: '%s %d, %04d %02d:%02d:%02d' % (MONF[d.month - 1], d.day, d.year, d.hour, d.minute, d.second), 's')
add('d_mon_y', lambda d: '%d %s %04d' % (d.day, MON[d.month - 1], d.year), 'd')
add('d_month_y', lambda d: '%d %s %04d' % (d.day, MONF[d.month - 1], d.year), 'd')
add('d-mon-y', lambda d: '%02d-%s-%04d' % (d.day, MON[d.month - 1], d.year), 'd')
add('y-mon-d', lambda d: '%04d-%s-%02d' % (d.year, MON[d.month - 1], d.day), 'd')
add('mon-d-y', lambda d: '%s-%02d-%04d' % (MON[d.month - 1], d.day, d.year), 'd')
add('wdf_month_d_y_time12', lambda d: '%s, %s %d, %04d %d:%02d:%02d %s' % (WDF[d.weekday()], MONF[d.month - 1], d.day, d.year, h12(d.hour), d.minute, d.second, ap(d.hour)), 's')
add('iso_time12', lambda d: '%04d-%02d-%02d %d:%02d%s' % (d.year, d.month, d.day, h12(d.hour), d.minute, ap(d.hour).lower()), 'm')
add('iso_time12_dots', lambda d: '%04d-%02d-%02d %d:%02d:%02d %s' % (d.year, d.month, d.day, h12(d.hour), d.minute, d.second, 'a.m.' if d.hour < 12 else 'p.m.'), 's')
add('iso_h12', lambda d: '%04d-%02d-%02d %d %s' % (d.year, d.month, d.day, h12(d.hour), ap(d.hour)), 'h')
add('iso_h12_glued', lambda d: '%04d-%02d-%02d %d%s' % (d.year, d.month, d.day, h12(d.hour), ap(d.hour).lower()), 'h')
# the time of day written before (or in the middle of) the date
add('h12_glued_then_iso', lambda d: '%d%s %04d-%02d-%02d' % (h12(d.hour), ap(d.hour), d.year, d.month, d.day), 'h')
add('h12_glued_on_mon_d_y', lambda d: '%d%s on %s %d, %04d' % (h12(d.hour), ap(d.hour).lower(), MON[d.month - 1], d.day, d.year), 'h')
add('mon_d_h12_glued_y', lambda d: '%s %d %d%s %04d' % (MON[d.month - 1], d.day, h12(d.hour), ap(d.hour), d.year), 'h')
add('time12_then_d_mon_y', lambda d: '%d:%02d%s %d %s %04d' % (h12(d.hour), d.minute, ap(d.hour).lower(), d.day, MON[d.month - 1], d.year), 'm')
add('time12_sp_then_month_d_y', lambda d: '%d:%02d:%02d %s %s %d, %04d' % (h12(d.hour), d.minute, d.second, ap(d.hour), MONF[d.month - 1], d.day, d.year), 's')
add('time_then_iso', lambda d: '%02d:%02d:%02d %04d-%02d-%02d' % (d.hour, d.minute, d.second, d.year, d.month, d.day), 's')
add('time_us_then_d_mon_y', lambda d: '%02d:%02d:%02d.%06d %d %s %04d' % (d.hour, d.minute, d.second, d.microsecond, d.day, MON[d.month - 1], d.year), 'us')
add('wd_d_mon_time_y', lambda d: '%s %d %s %02d:%02d:%02d %04d' % (WD[d.weekday()], d.day, MON[d.month - 1], d.hour, d.minute, d.second, d.year), 's')
# day glued to a month name
add('dMonY_glued', lambda d: '%d%s%04d' % (d.day, MON[d.month - 1], d.year), 'd')
add('ddMonthY_glued_time', lambda d: '%02d%s%04dT%02d:%02d:%02d' % (d.day, MONF[d.month - 1], d.year, d.hour, d.minute, d.second), 's')
add('iso_hms', lambda d: '%04d-%02d-%02d %02dh%02dm%02ds' % (d.year, d.month, d.day, d.hour, d.minute, d.second), 's')
def _fr(d, n):
    return ('%06d' % d.microsecond)[:n]


def _trunc(n):
    return lambda d: d.replace(microsecond=d.microsecond // 10 ** (6 - n) * 10 ** (6 - n))


for _n in (1, 2, 3, 4, 5):
    add('iso_T_f%d' % _n, (lambda n: lambda d: '%04d-%02d-%02dT%02d:%02d:%02d.%s' % (d.year, d.month, d.day, d.hour, d.minute, d.second, _fr(d, n)))(_n), 'f%d' % _n)
    add('iso_hms_f%d' % _n, (lambda n: lambda d: '%04d-%02d-%02d %02dh%02dm%02d.%ss' % (d.year, d.month, d.day, d.hour, d.minute, d.second, _fr(d, n)))(_n), 'f%d' % _n)
add('compactT6_comma3', lambda d: '%04d%02d%02dT%02d%02d%02d,%s' % (d.year, d.month, d.day, d.hour, d.minute, d.second, _fr(d, 3)), 'f3')
add('compactT6_comma6', lambda d: '%04d%02d%02dT%02d%02d%02d,%s' % (d.year, d.month, d.day, d.hour, d.minute, d.second, _fr(d, 6)), 'us')
add('compact_sp6_comma1', lambda d: '%04d%02d%02d %02d%02d%02d,%s' % (d.year, d.month, d.day, d.hour, d.minute, d.second, _fr(d, 1)), 'f1')
add('iso_sp_comma6', lambda d: '%04d-%02d-%02d %02d:%02d:%02d,%s' % (d.year, d.month, d.day, d.hour, d.minute, d.second, _fr(d, 6)), 'us')
add('compactT6_f3', lambda d: '%04d%02d%02dT%02d%02d%02d.%s' % (d.year, d.month, d.day, d.hour, d.minute, d.second, _fr(d, 3)), 'f3')
add('iso_hmsf', lambda d: '%04d-%02d-%02d %02dh%02dm%02d.%06ds' % (d.year, d.month, d.day, d.hour, d.minute, d.second, d.microsecond), 'us')
add('us_slash', lambda d: '%02d/%02d/%04d' % (d.month, d.day, d.year), 'd')
add('us_slash_time', lambda d: '%d/%d/%04d %02d:%02d:%02d' % (d.month, d.day, d.year, d.hour, d.minute, d.second), 's')
add('us_dash', lambda d: '%02d-%02d-%04d' % (d.month, d.day, d.year), 'd')
add('eu_slash', lambda d: '%02d/%02d/%04d' % (d.day, d.month, d.year), 'd', dayfirst=True)
add('eu_dot', lambda d: '%02d.%02d.%04d' % (d.day, d.month, d.year), 'd', dayfirst=True)
add('eu_dot_time', lambda d: '%02d.%02d.%04d %02d:%02d' % (d.day, d.month, d.year, d.hour, d.minute), 'm', dayfirst=True)
add('y_slash', lambda d: '%04d/%02d/%02d' % (d.year, d.month, d.day), 'd')
add('y_slash_yearfirst', lambda d: '%04d/%02d/%02d' % (d.year, d.month, d.day), 'd', yearfirst=True)
add('ydm', lambda d: '%04d-%02d-%02d' % (d.year, d.day, d.month), 'd', dayfirst=True, yearfirst=True)

PREC = {'f1': _trunc(1), 'f2': _trunc(2), 'f3': _trunc(3), 'f4': _trunc(4), 'f5': _trunc(5),
        'us': lambda d: d,
        'ms': lambda d: d.replace(microsecond=d.microsecond // 1000 * 1000),
        's': lambda d: d.replace(microsecond=0),
        'm': lambda d: d.replace(second=0, microsecond=0),
        'h': lambda d: d.replace(minute=0, second=0, microsecond=0),
        'd': lambda d: d.replace(hour=0, minute=0, second=0, microsecond=0)}

OFFSET_FORMS = ['Z', ' UTC', ' GMT', '+hhmm', ' +hhmm', ' +hh:mm', '+hh:mm', '+hh', ' -0000']
OFFSET_VALUES = [0, 3600, -10800, 19800, -34200, 86340, -86340]


def render_offset(form, off):
    """-> suffix text or None when the form cannot express the value"""
    if form in ('Z', ' UTC', ' GMT'):
        return form if off == 0 else None
    if form == ' -0000':
        return form if off == 0 else None
    s = '+' if off >= 0 else '-'
    a = abs(off)
    h, m = a // 3600, a % 3600 // 60
    lead = ' ' if form.startswith(' ') else ''
    body = form.strip()
    if body == '+hhmm':
        return '%s%s%02d%02d' % (lead, s, h, m)
    if body == '+hh:mm':
        return '%s%s%02d:%02d' % (lead, s, h, m)
    if body == '+hh':
        return None if m else '%s%s%02d' % (lead, s, h)
    raise ValueError(form)


# two-digit-year templates (flag sets chosen so that the year position is unambiguous)
T2 = collections.OrderedDict()
T2['us_slash_yy'] = (lambda d: '%02d/%02d/%02d' % (d.month, d.day, d.year % 100), {})
T2['eu_dot_yy'] = (lambda d: '%02d.%02d.%02d' % (d.day, d.month, d.year % 100), {'dayfirst': True})
T2['yy_mm_dd_yearfirst'] = (lambda d: '%02d-%02d-%02d' % (d.year % 100, d.month, d.day), {'yearfirst': True})
T2['d_mon_yy'] = (lambda d: '%d %s %02d' % (d.day, MON[d.month - 1], d.year % 100), {})
T2['mon_d_yy'] = (lambda d: "%s %d, %02d" % (MON[d.month - 1], d.day, d.year % 100), {})
T2['yymmdd_yearfirst'] = (lambda d: '%02d%02d%02d' % (d.year % 100, d.month, d.day), {'yearfirst': True})


def expected_two_digit_year(yy, current):
    """the unique year within -50..+49 of `current` whose last two digits are yy"""
    for y in range(current - 50, current + 50):
        if y % 100 == yy:
            return y
    raise AssertionError
