"""Independent evaluator of POSIX TZ rule strings (C04, C08, C17) + renderer, cross-checked against glibc.

A spec is Posix(std, stdoff, dst, dstoff, srule, stime, erule, etime) with offsets
in seconds EAST of UTC, rules ('M', m, w, d) / ('J', n) / ('N', n) and times in
seconds after local midnight (None = the POSIX default 02:00:00).
Daylight time runs from the start rule's date at `stime` local STANDARD time to
the end rule's date at `etime` local DAYLIGHT time, in either hemisphere order.
"""
import calendar
import datetime as D
import os
import time

EPOCH = D.datetime(1970, 1, 1)


def rule_date(year, rule):
    kind = rule[0]
    if kind == 'M':
        _, m, w, d = rule                   # d: 0 = Sunday
        first = D.date(year, m, 1)
        pyd = (d - 1) % 7                   # python: Monday = 0
        day = 1 + (pyd - first.weekday()) % 7 + (w - 1) * 7
        dim = calendar.monthrange(year, m)[1]
        while day > dim:
            day -= 7
        return D.date(year, m, day)
    if kind == 'J':                         # 1..365, 29 February never counted
        d = D.date(2001, 1, 1) + D.timedelta(days=rule[1] - 1)
        return D.date(year, d.month, d.day)
    if kind == 'N':                         # 0..365, leap days counted
        return D.date(year, 1, 1) + D.timedelta(days=rule[1])
    raise ValueError(rule)


def fmt_time(t):
    sign = '-' if t < 0 else ''
    t = abs(t)
    h, rem = divmod(t, 3600)
    m, sec = divmod(rem, 60)
    s = '%s%d' % (sign, h)
    if m or sec:
        s += ':%02d' % m
    if sec:
        s += ':%02d' % sec
    return s


def fmt_rule(rule, t):
    if rule[0] == 'M':
        s = 'M%d.%d.%d' % rule[1:]
    elif rule[0] == 'J':
        s = 'J%d' % rule[1]
    else:
        s = '%d' % rule[1]
    if t is not None:
        s += '/' + fmt_time(t)
    return s


def fmt_off(sec):
    """POSIX sign convention: positive = west of Greenwich"""
    return fmt_time(-sec)


class Posix(object):
    def __init__(self, std, stdoff, dst=None, dstoff=None, srule=None, stime=None, erule=None, etime=None):
        self.std, self.stdoff, self.dst = std, stdoff, dst
        self.dstoff = dstoff if dstoff is not None else (stdoff + 3600 if dst else None)
        self.srule, self.stime, self.erule, self.etime = srule, stime, erule, etime

    def string(self, explicit_dst=True):
        s = self.std + fmt_off(self.stdoff)
        if self.dst:
            s += self.dst
            if explicit_dst:
                s += fmt_off(self.dstoff)
            s += ',' + fmt_rule(self.srule, self.stime) + ',' + fmt_rule(self.erule, self.etime)
        return s

    def trans_utc(self, year):
        """(start, end) of daylight time of `year` as naive UTC datetimes"""
        st = 7200 if self.stime is None else self.stime
        et = 7200 if self.etime is None else self.etime
        s = D.datetime.combine(rule_date(year, self.srule), D.time(0)) + D.timedelta(seconds=st - self.stdoff)
        e = D.datetime.combine(rule_date(year, self.erule), D.time(0)) + D.timedelta(seconds=et - self.dstoff)
        return s, e

    def at(self, u):
        """naive UTC datetime -> (offset seconds east, abbreviation, isdst)"""
        if not self.dst:
            return (self.stdoff, self.std, False)
        isdst = False
        for y in (u.year - 1, u.year, u.year + 1):
            if y < 1 or y > 9999:
                continue
            s, e = self.trans_utc(y)
            if s < e:
                if s <= u < e:
                    isdst = True
            elif y + 1 <= 9999:
                if s <= u < self.trans_utc(y + 1)[1]:          # southern: into the next year
                    isdst = True
        return (self.dstoff, self.dst, True) if isdst else (self.stdoff, self.std, False)

    def transitions(self, years):
        out = []
        for y in years:
            out.extend(self.trans_utc(y))
        return sorted(out)


def libc_at(tzs, u):
    """glibc's answer for TZ=tzs at naive UTC datetime u (second opinion for the reference)"""
    old = os.environ.get('TZ')
    os.environ['TZ'] = tzs
    time.tzset()
    try:
        lt = time.localtime(int((u - EPOCH).total_seconds()))
        return (lt.tm_gmtoff, lt.tm_zone, bool(lt.tm_isdst))
    finally:
        if old is None:
            os.environ.pop('TZ', None)
        else:
            os.environ['TZ'] = old
        time.tzset()


def selftest():
    p = Posix('EST', -18000, 'EDT', -14400, ('M', 3, 2, 0), None, ('M', 11, 1, 0), None)
    assert p.string() == 'EST5EDT4,M3.2.0,M11.1.0', p.string()
    assert p.trans_utc(2024) == (D.datetime(2024, 3, 10, 7), D.datetime(2024, 11, 3, 6))
    assert p.at(D.datetime(2024, 3, 10, 6, 59, 59)) == (-18000, 'EST', False)
    assert p.at(D.datetime(2024, 3, 10, 7)) == (-14400, 'EDT', True)
    s = Posix('AEST', 36000, 'AEDT', 39600, ('M', 10, 1, 0), None, ('M', 4, 1, 0), 10800)
    assert s.at(D.datetime(2024, 1, 15)) == (39600, 'AEDT', True) and s.at(D.datetime(2024, 6, 15))[2] is False
    for u in (D.datetime(2024, 3, 10, 6, 59, 59), D.datetime(2024, 3, 10, 7), D.datetime(2024, 7, 1), D.datetime(2024, 11, 3, 6)):
        assert libc_at(p.string(), u) == p.at(u), (u, libc_at(p.string(), u), p.at(u))
    return True
