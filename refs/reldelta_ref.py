"""Reference semantics for relativedelta (C03, C09, C16), by plain integer arithmetic.

Nothing here imports dateutil.  A delta is a dict of constructor keyword
arguments with integer values; weekday is (wd, n) with n possibly None.
"""
import calendar
import datetime as D

REL = ('years', 'months', 'days', 'hours', 'minutes', 'seconds', 'microseconds')
ABS = ('year', 'month', 'day', 'hour', 'minute', 'second', 'microsecond')
ERR = 'ERR'


def sgn(x):
    return (x > 0) - (x < 0)


def carry(lo, hi, base):
    """sign-preserving carry of lo into hi: |lo| < base afterwards, total kept"""
    s = sgn(lo)
    q, r = divmod(abs(lo), base)
    return s * r, hi + s * q


def normalise(f):
    """relative fields after the documented normalisation (totals preserved)."""
    us = f.get('microseconds', 0)
    sec = f.get('seconds', 0)
    mi = f.get('minutes', 0)
    h = f.get('hours', 0)
    d = f.get('days', 0) + 7 * f.get('weeks', 0)
    mo = f.get('months', 0)
    y = f.get('years', 0)
    us, sec = carry(us, sec, 10 ** 6)
    sec, mi = carry(sec, mi, 60)
    mi, h = carry(mi, h, 60)
    h, d = carry(h, d, 24)
    mo, y = carry(mo, y, 12)
    return dict(years=y, months=mo, days=d, hours=h, minutes=mi, seconds=sec, microseconds=us)


YDAY_TABLE = [31, 59, 90, 120, 151, 181, 212, 243, 273, 304, 334, 366]


def resolve_yearday(f):
    """yearday/nlyearday -> (month, day, leapdays) per the docstring: 'converted to
    day/month/leapdays information' on the non-leap calendar."""
    f = dict(f)
    yd = f.pop('nlyearday', None)
    leap_adjust = False
    if not yd:
        yd = f.pop('yearday', None)
        leap_adjust = bool(yd) and yd > 59
    else:
        f.pop('yearday', None)
    if yd:
        if yd > 366:
            return None
        if yd == 366:
            # day 366 exists only in leap years, where it is 31 December; in other years the request is clipped to
            # the last day.  (Not derived from the implementation's table, whose entry for 366 is "December 32nd".)
            f['month'], f['day'] = 12, 31
            return f
        prev = 0
        for i, t in enumerate(YDAY_TABLE):
            if yd <= t:
                f['month'] = i + 1
                f['day'] = yd - prev
                break
            prev = t
        if leap_adjust:
            f['leapdays'] = -1
    return f


def has_time(f):
    n = normalise(f)
    return bool(n['hours'] or n['minutes'] or n['seconds'] or n['microseconds'] or
                any(f.get(k) is not None for k in ('hour', 'minute', 'second', 'microsecond')))


def dim(y, m):
    return calendar.monthrange(y, m)[1]


def add(dt, f):
    """dt + relativedelta(**f) by the documented order; ERR when out of range."""
    f = resolve_yearday(f)
    if f is None:
        return 'CTOR-ERR'
    is_dt = isinstance(dt, D.datetime)
    n = normalise(f)
    y = f['year'] if f.get('year') is not None else dt.year
    m = f['month'] if f.get('month') is not None else dt.month
    day = f['day'] if f.get('day') is not None else dt.day
    idx = y * 12 + (m - 1) + n['years'] * 12 + n['months']
    ny, nm = divmod(idx, 12)
    nm += 1
    if not (1 <= ny <= 9999):
        return ERR
    nd = min(dim(ny, nm), day)
    if not is_dt and has_time(f):
        dt = D.datetime(dt.year, dt.month, dt.day)
        is_dt = True
    repl = dict(year=ny, month=nm, day=nd)
    if is_dt:
        for k in ('hour', 'minute', 'second', 'microsecond'):
            if f.get(k) is not None:
                repl[k] = f[k]
    try:
        base = dt.replace(**repl)
    except ValueError:
        return ERR
    days = n['days']
    if f.get('leapdays') and nm > 2 and calendar.isleap(ny):
        days += f['leapdays']
    try:
        if is_dt:
            total_us = (((days * 24 + n['hours']) * 60 + n['minutes']) * 60 + n['seconds']) * 10 ** 6 + n['microseconds']
            res = base + D.timedelta(microseconds=total_us)
        else:
            res = base + D.timedelta(days=days)
    except OverflowError:
        return ERR
    wd = f.get('weekday')
    if wd is not None:
        w, nth = wd
        nth = nth or 1
        o = res.toordinal()
        cur = (o + 6) % 7                     # Monday == 0
        if nth > 0:
            o2 = o + (w - cur) % 7 + (nth - 1) * 7
        else:
            o2 = o - (cur - w) % 7 - (-nth - 1) * 7
        try:
            res = res + D.timedelta(days=o2 - o)
        except OverflowError:
            return ERR
    return res


def negate(f):
    g = dict(f)
    for k in REL + ('weeks',):
        if k in g:
            g[k] = -g[k]
    return g


def shift_months(d, M):
    """d shifted by M calendar months with day clipping; None if out of range."""
    idx = d.year * 12 + d.month - 1 + M
    y, m = divmod(idx, 12)
    m += 1
    if not 1 <= y <= 9999:
        return None
    return d.replace(year=y, month=m, day=min(d.day, dim(y, m)))


def max_month_shift(a, b):
    """largest whole-month shift of b that does not pass a (towards a)."""
    if a >= b:
        M = (a.year - b.year) * 12 + a.month - b.month + 1
        while shift_months(b, M) is None or shift_months(b, M) > a:
            M -= 1
    else:
        M = (a.year - b.year) * 12 + a.month - b.month - 1
        while shift_months(b, M) is None or shift_months(b, M) < a:
            M += 1
    return M


def selftest():
    # duration part agrees with timedelta; month shift with known cases
    assert add(D.date(2003, 1, 31), {'months': 1}) == D.date(2003, 2, 28)
    assert add(D.date(2000, 1, 31), {'months': 1}) == D.date(2000, 2, 29)
    assert add(D.datetime(2018, 4, 9, 13, 37), {'hours': 25, 'day': 1, 'weekday': (0, 1)}) == D.datetime(2018, 4, 2, 14, 37)
    assert add(D.date(2003, 9, 17), {'weekday': (4, -1)}) == D.date(2003, 9, 12)
    assert add(D.date(2003, 9, 17), {'yearday': 260}) == D.date(2003, 9, 17)
    assert add(D.date(2000, 9, 17), {'yearday': 261}) == D.date(2000, 9, 17)
    assert add(D.date(2000, 9, 17), {'nlyearday': 260}) == D.date(2000, 9, 17)
    assert add(D.date(2000, 1, 1), {'yearday': 366}) == D.date(2000, 12, 31) and add(D.date(2001, 1, 1), {'yearday': 366}) == D.date(2001, 12, 31)
    for n in range(1, 366):
        assert add(D.date(2001, 6, 6), {'yearday': n}).timetuple().tm_yday == n and add(D.date(2004, 6, 6), {'yearday': n}).timetuple().tm_yday == n
    assert normalise({'hours': 1, 'seconds': -3600})['hours'] == 0
    assert max_month_shift(D.date(2000, 3, 30), D.date(2000, 1, 31)) == 1
    return True
